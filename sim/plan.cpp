// Plan text I/O. Line oriented so that the Python minimiser can edit plans without knowing op semantics:
//   op <kind> t=<task> o=<slot> o2=<slot> i=<ints> d=<doubles> P0=<paths> P1=.. P2=.. D0=.. D1=.. D2=..
//   fault op=<idx> alloc=<k> kind=<0|1>
//   seg t=<task> q=<edges>
// paths literal: "-" = empty list; otherwise paths each terminated by ';', points separated by ':',
// coordinates by ',' (x,y or x,y,z). Doubles are printed with %.17g (exact round trip).
#include "plan.h"
#include <cinttypes>
#include <cstdio>
#include <cstdlib>
#include <cstring>
#include <sstream>

namespace sim {

static void put_paths(std::string& s, const PPaths& pp) {
  if (pp.empty()) { s += "-"; return; }
  char b[96];
  for (const PPath& p : pp) {
    bool first = true;
    for (const PPt& q : p) {
      if (!first) s += ":";
      first = false;
      if (q.z) snprintf(b, sizeof b, "%" PRId64 ",%" PRId64 ",%" PRId64, q.x, q.y, q.z);
      else snprintf(b, sizeof b, "%" PRId64 ",%" PRId64, q.x, q.y);
      s += b;
    }
    s += ";";
  }
}
static void put_pathsd(std::string& s, const PPathsD& pp) {
  if (pp.empty()) { s += "-"; return; }
  char b[128];
  for (const PPathD& p : pp) {
    bool first = true;
    for (const PPtD& q : p) {
      if (!first) s += ":";
      first = false;
      if (q.z) snprintf(b, sizeof b, "%.17g,%.17g,%" PRId64, q.x, q.y, q.z);
      else snprintf(b, sizeof b, "%.17g,%.17g", q.x, q.y);
      s += b;
    }
    s += ";";
  }
}

std::string plan_to_text(const Plan& p) {
  std::string s;
  char b[256];
  s += "plan v1\n";
  s += "prop " + p.prop + "\n";
  if (!p.cfg.empty()) s += "cfg " + p.cfg + "\n";
  snprintf(b, sizeof b, "env %" PRIu64 "\nseed %" PRIu64 " run %" PRIu64 "\nntasks %d\ncheck_model %d\nsched_seed %" PRIu64 "\n",
           p.env, p.seed, p.run, p.ntasks, p.check_model, p.sched_seed);
  s += b;
  if (p.variant) { snprintf(b, sizeof b, "variant %d\n", p.variant); s += b; }
  if (!p.expect.empty()) s += "expect " + p.expect + "\n";
  if (!p.note.empty()) s += "note " + p.note + "\n";
  for (const Op& o : p.ops) {
    s += "op " + o.kind;
    snprintf(b, sizeof b, " t=%d", o.task); s += b;
    if (o.o >= 0) { snprintf(b, sizeof b, " o=%d", o.o); s += b; }
    if (o.o2 >= 0) { snprintf(b, sizeof b, " o2=%d", o.o2); s += b; }
    if (!o.i.empty()) {
      s += " i=";
      for (size_t k = 0; k < o.i.size(); ++k) { snprintf(b, sizeof b, "%s%" PRId64, k ? "," : "", o.i[k]); s += b; }
    }
    if (!o.d.empty()) {
      s += " d=";
      for (size_t k = 0; k < o.d.size(); ++k) { snprintf(b, sizeof b, "%s%.17g", k ? "," : "", o.d[k]); s += b; }
    }
    for (int k = 0; k < 3; ++k) if (o.hasP[k]) { snprintf(b, sizeof b, " P%d=", k); s += b; put_paths(s, o.P[k]); }
    for (int k = 0; k < 3; ++k) if (o.hasD[k]) { snprintf(b, sizeof b, " D%d=", k); s += b; put_pathsd(s, o.D[k]); }
    s += "\n";
  }
  for (const Fault& f : p.faults) { snprintf(b, sizeof b, "fault op=%d alloc=%" PRId64 " kind=%d\n", f.op, f.alloc, f.kind); s += b; }
  for (const Seg& g : p.sched) { if (g.watch) snprintf(b, sizeof b, "seg t=%d q=%" PRIu64 " w=%u\n", g.task, g.quantum, g.watch); else snprintf(b, sizeof b, "seg t=%d q=%" PRIu64 "\n", g.task, g.quantum); s += b; }
  return s;
}

static bool parse_paths(const char* v, PPaths& out) {
  out.clear();
  if (strcmp(v, "-") == 0) return true;
  const char* c = v;
  PPath cur;
  while (*c) {
    if (*c == ';') { out.push_back(cur); cur.clear(); ++c; continue; }
    if (*c == ':') { ++c; continue; }
    PPt q; char* e;
    q.x = strtoll(c, &e, 10); if (e == c || *e != ',') return false; c = e + 1;
    q.y = strtoll(c, &e, 10); if (e == c) return false; c = e;
    if (*c == ',') { ++c; q.z = strtoll(c, &e, 10); if (e == c) return false; c = e; }
    cur.push_back(q);
  }
  return cur.empty();
}
static bool parse_pathsd(const char* v, PPathsD& out) {
  out.clear();
  if (strcmp(v, "-") == 0) return true;
  const char* c = v;
  PPathD cur;
  while (*c) {
    if (*c == ';') { out.push_back(cur); cur.clear(); ++c; continue; }
    if (*c == ':') { ++c; continue; }
    PPtD q; char* e;
    q.x = strtod(c, &e); if (e == c || *e != ',') return false; c = e + 1;
    q.y = strtod(c, &e); if (e == c) return false; c = e;
    if (*c == ',') { ++c; q.z = strtoll(c, &e, 10); if (e == c) return false; c = e; }
    cur.push_back(q);
  }
  return cur.empty();
}

bool plan_from_text(const std::string& text, Plan& p, std::string& err) {
  p = Plan();
  std::istringstream in(text);
  std::string line;
  int ln = 0;
  while (std::getline(in, line)) {
    ++ln;
    if (line.empty() || line[0] == '#') continue;
    std::istringstream ls(line);
    std::string w; ls >> w;
    if (w == "plan") continue;
    else if (w == "prop") ls >> p.prop;
    else if (w == "cfg") ls >> p.cfg;
    else if (w == "env") ls >> p.env;
    else if (w == "seed") { std::string r; ls >> p.seed >> r >> p.run; }
    else if (w == "ntasks") ls >> p.ntasks;
    else if (w == "check_model") ls >> p.check_model;
    else if (w == "sched_seed") ls >> p.sched_seed;
    else if (w == "variant") ls >> p.variant;
    else if (w == "expect") { std::getline(ls, p.expect); while (!p.expect.empty() && p.expect[0] == ' ') p.expect.erase(0, 1); }
    else if (w == "note") { std::getline(ls, p.note); while (!p.note.empty() && p.note[0] == ' ') p.note.erase(0, 1); }
    else if (w == "op") {
      Op o; ls >> o.kind;
      std::string kv;
      while (ls >> kv) {
        size_t eq = kv.find('=');
        if (eq == std::string::npos) { err = "line " + std::to_string(ln) + ": bad token " + kv; return false; }
        std::string k = kv.substr(0, eq); const char* v = kv.c_str() + eq + 1;
        if (k == "t") o.task = atoi(v);
        else if (k == "o") o.o = atoi(v);
        else if (k == "o2") o.o2 = atoi(v);
        else if (k == "i") { const char* c = v; while (*c) { char* e; o.i.push_back(strtoll(c, &e, 10)); if (e == c) { err = "bad int list"; return false; } c = (*e == ',') ? e + 1 : e; } }
        else if (k == "d") { const char* c = v; while (*c) { char* e; o.d.push_back(strtod(c, &e)); if (e == c) { err = "bad double list"; return false; } c = (*e == ',') ? e + 1 : e; } }
        else if (k.size() == 2 && k[0] == 'P' && k[1] >= '0' && k[1] <= '2') { int x = k[1] - '0'; o.hasP[x] = true; if (!parse_paths(v, o.P[x])) { err = "line " + std::to_string(ln) + ": bad paths"; return false; } }
        else if (k.size() == 2 && k[0] == 'D' && k[1] >= '0' && k[1] <= '2') { int x = k[1] - '0'; o.hasD[x] = true; if (!parse_pathsd(v, o.D[x])) { err = "line " + std::to_string(ln) + ": bad pathsd"; return false; } }
        else { err = "line " + std::to_string(ln) + ": unknown key " + k; return false; }
      }
      p.ops.push_back(std::move(o));
    }
    else if (w == "fault") {
      Fault f; std::string kv;
      while (ls >> kv) {
        size_t eq = kv.find('='); if (eq == std::string::npos) continue;
        std::string k = kv.substr(0, eq); const char* v = kv.c_str() + eq + 1;
        if (k == "op") f.op = atoi(v); else if (k == "alloc") f.alloc = atoll(v); else if (k == "kind") f.kind = atoi(v);
      }
      p.faults.push_back(f);
    }
    else if (w == "seg") {
      Seg g; std::string kv;
      while (ls >> kv) {
        size_t eq = kv.find('='); if (eq == std::string::npos) continue;
        std::string k = kv.substr(0, eq); const char* v = kv.c_str() + eq + 1;
        if (k == "t") g.task = atoi(v); else if (k == "q") g.quantum = strtoull(v, nullptr, 10); else if (k == "w") g.watch = (uint32_t)strtoul(v, nullptr, 10);
      }
      p.sched.push_back(g);
    }
    else { err = "line " + std::to_string(ln) + ": unknown record " + w; return false; }
  }
  return true;
}

} // namespace sim
