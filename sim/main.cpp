// sim: engines (C10 fault enumeration, C12 history search, C14 scheduled threads), worker loop and CLI.
// Uninstrumented by coverage; decides nothing by wall clock.
#include <sys/personality.h>
#include <unistd.h>
#include "gen.h"
#include "plan.h"
#include "rt.h"
#include "work.h"
#include <algorithm>
#include <cinttypes>
#include <csignal>
#include <cstdio>
#include <cstdlib>
#include <cstring>
#include <exception>
#include <fstream>
#include <map>
#include <set>
#include <sstream>
#include <string>
#include <vector>

using namespace sim;

static uint64_t g_budget = 400000000ull;   // step budget per execution (hang detection); SIM_BUDGET lowers it while minimising a hang

// ------------------------------------------------------------------ one sequential execution of a plan
struct RunCtl {
  uint64_t env = 1; Fault fault; bool nothrow_fail_all = false; uint64_t budget = g_budget; int model = 0;
};
struct RunOut {
  TaskOut setup; std::vector<TaskOut> tasks;
  uint64_t steps = 0; int64_t allocs = 0, nt_allocs = 0, leaked = 0, peak = 0, maxreq = 0, nothrow_failed = 0;
  bool fault_fired = false; uint32_t fault_guard = 0;
};

static void exec_seq(const Plan& pl, const RunCtl& ctl, RunOut& out) {
  rt_set_env(ctl.env);
  rt_reset_alloc_stats();
  TaskCtx* t = sim_cur();
  int64_t live0 = rt_alloc_stats().live_blocks;
  uint64_t steps0 = t->steps; int64_t a0 = t->total_allocs, n0 = t->total_nt_allocs;
  t->fault_op = ctl.fault.op; t->fault_alloc = ctl.fault.alloc; t->fault_kind = ctl.fault.kind; t->fault_fired = false;
  t->nothrow_fail_all = ctl.nothrow_fail_all; t->nothrow_failed = 0;
  t->budget = t->steps + ctl.budget; t->step_limit = t->budget; t->preemptible = false; t->scope = 0;
  out.tasks.assign((size_t)pl.ntasks, TaskOut());
  WorkShared* ws = work_shared_create(pl, out.setup, ctl.model);
  for (int k = 0; k < pl.ntasks; ++k) work_exec_task(pl, k, ws, out.tasks[(size_t)k], ctl.model);
  work_shared_destroy(ws);
  out.steps = t->steps - steps0; out.allocs = t->total_allocs - a0; out.nt_allocs = t->total_nt_allocs - n0;
  out.leaked = rt_alloc_stats().live_blocks - live0; out.peak = rt_alloc_stats().peak_bytes;  // (cumulative baseline included; informational) out.maxreq = rt_alloc_stats().max_request;
  out.fault_fired = t->fault_fired; out.fault_guard = t->fault_guard; out.nothrow_failed = t->nothrow_failed;
  t->fault_op = -1; t->nothrow_fail_all = false; t->budget = ~0ull; t->step_limit = ~0ull;
  if (out.fault_fired) rt_arena_expect_leaks(); else rt_arena_preserve_live();
  rt_env_release();
}

static uint64_t run_digest(const RunOut& r) {
  uint64_t h = 1469598103934665603ull;
  auto mixin = [&](uint64_t v) { h ^= v; h *= 1099511628211ull; h ^= h >> 29; };
  if (getenv("SIM_DUMP_OPS")) {           // debugging aid: per-operation digests
    for (const OpResult& o : r.setup.res) fprintf(stderr, "OPDIG setup op=%d outcome=%d dig=%016" PRIx64 " allocs=%" PRId64 "\n", o.op, o.outcome, o.digest, o.allocs);
    for (size_t t = 0; t < r.tasks.size(); ++t) for (const OpResult& o : r.tasks[t].res) fprintf(stderr, "OPDIG task=%zu op=%d outcome=%d dig=%016" PRIx64 " allocs=%" PRId64 "\n", t, o.op, o.outcome, o.digest, o.allocs);
  }
  for (const OpResult& o : r.setup.res) { mixin((uint64_t)o.op); mixin(o.digest); }
  for (const TaskOut& t : r.tasks) for (const OpResult& o : t.res) { mixin((uint64_t)o.op); mixin(o.digest); }
  return h;
}

// ------------------------------------------------------------------ violations
struct Violation {
  std::string cls, sig, detail; Plan plan;     // plan: explicit (fault / schedule written out)
};
struct Stats {
  uint64_t evals = 0, steps = 0, fault_runs = 0, nothrow_fault_runs = 0, fault_fired_in_lib = 0, leaked_after_fault = 0, twin_runs = 0;
  uint64_t compared = 0, nontrivial = 0, exec_true = 0, exec_false = 0, cex = 0;
  uint64_t switches = 0, lib_preempt = 0, runs_two_preempted = 0, static_checks = 0, static_rebaselined = 0, yields_cb = 0, colocated = 0;
  std::set<uint64_t> keys;                     // distinct-nontrivial measure
  std::map<std::string, uint64_t> by_kind;     // fault executions per operation kind (entry point)
  uint64_t digest = 0;                         // digest of everything the run's operations returned (results only: what the process-history probe compares)
  uint64_t sched_digest = 0;                   // C14: digest of the interleaving (task, edges run, reason per segment); step counts legitimately differ when a case pays for a one-time initialisation
};

static uint64_t env_twin(uint64_t env) { uint64_t e = env * 0x9E3779B97F4A7C15ull + 7; if ((e & 7) == (env & 7)) e ^= 1; return e | 8; }

static const OpResult* find_res(const RunOut& r, int op) {
  for (const OpResult& o : r.setup.res) if (o.op == op) return &o;
  for (const TaskOut& t : r.tasks) for (const OpResult& o : t.res) if (o.op == op) return &o;
  return nullptr;
}
template <typename F> static void for_each_res(const RunOut& r, F f) {
  for (const OpResult& o : r.setup.res) f(o);
  for (const TaskOut& t : r.tasks) for (const OpResult& o : t.res) f(o);
}
static std::string cmp_runs(const RunOut& a, const RunOut& b, bool counts) {
  std::vector<const OpResult*> ra, rb;
  for_each_res(a, [&](const OpResult& o) { ra.push_back(&o); }); for_each_res(b, [&](const OpResult& o) { rb.push_back(&o); });
  if (ra.size() != rb.size()) return "different number of executed ops";
  char buf[256];
  for (size_t k = 0; k < ra.size(); ++k) {
    if (ra[k]->op != rb[k]->op || ra[k]->digest != rb[k]->digest || ra[k]->outcome != rb[k]->outcome) {
      snprintf(buf, sizeof buf, "op %d: digest %016" PRIx64 " outcome %d  vs  digest %016" PRIx64 " outcome %d", ra[k]->op, ra[k]->digest, ra[k]->outcome, rb[k]->digest, rb[k]->outcome);
      return buf;
    }
    if (counts && (ra[k]->allocs != rb[k]->allocs || ra[k]->nt_allocs != rb[k]->nt_allocs)) {
      snprintf(buf, sizeof buf, "op %d: allocation count %" PRId64 "/%" PRId64 " vs %" PRId64 "/%" PRId64, ra[k]->op, ra[k]->allocs, ra[k]->nt_allocs, rb[k]->allocs, rb[k]->nt_allocs);
      return buf;
    }
  }
  if (counts && a.steps != b.steps) { snprintf(buf, sizeof buf, "step count %" PRIu64 " vs %" PRIu64, a.steps, b.steps); return buf; }
  return "";
}

static uint64_t g_cur_run = 0;
static int g_fault_cap = 600;
static int g_max_phase = 9;   // replay/minimisation: stop after this phase (1 baseline, 2 twin, 3 all-nothrow-fail, 4+ fault enumeration)

// ------------------------------------------------------------------ C10 engine
// returns true if a violation was found (filled in v)
static volatile sig_atomic_t g_stop = 0;
static bool g_aborted = false;
static bool c10_fault_run(const Plan& pl, const RunOut& base, int op, int64_t k, int kind, Stats& st, Violation& v, const char* opkind) {
  if (g_stop) { g_aborted = true; return false; }          // time box used up: abandon the case (it is not counted)
  RunCtl ctl; ctl.env = pl.env; ctl.fault.op = op; ctl.fault.alloc = k; ctl.fault.kind = kind;
  sim_status_run(g_cur_run, 4 + (uint64_t)kind, (uint64_t)op, (uint64_t)k);
  RunOut f; exec_seq(pl, ctl, f);
  ++st.evals;
  if (kind == 0) ++st.fault_runs; else ++st.nothrow_fault_runs;
  st.steps += f.steps;
  const OpResult* r = find_res(f, op);
  auto fail = [&](const char* cls, const std::string& detail) {
    v.cls = cls; v.detail = detail; v.plan = pl; v.plan.faults.clear(); v.plan.faults.push_back(ctl.fault);
    char b[160]; snprintf(b, sizeof b, "%s op=%s", cls, opkind); v.sig = b;
    return true;
  };
  if (!f.fault_fired || !r) return fail("harness-fault-not-reached", "the fault index was not reached although the baseline counted it (nondeterministic allocation sequence)");
  ++st.by_kind[opkind];
  if (f.fault_guard) { ++st.fault_fired_in_lib; st.keys.insert(mix64(tag64(opkind), ((uint64_t)kind << 32) | f.fault_guard)); }
  if (kind == 0) {
    if (r->outcome == 0 || r->outcome == 4) return fail("swallowed-bad_alloc", "an allocation failed with std::bad_alloc inside the operation but the operation returned normally");
    if (r->outcome == 2) return fail("wrong-exception", "an allocation failed inside the operation but a Clipper2Exception reached the caller instead of std::bad_alloc");
    if (r->outcome == 3) return fail("wrong-exception", "an allocation failed inside the operation but another exception reached the caller: " + r->detail);
    if (f.leaked > 0) ++st.leaked_after_fault;
  } else {
    const OpResult* b = find_res(base, op);
    if (!b || r->outcome != b->outcome || r->digest != b->digest) return fail("nothrow-fallback-differs", "a failing nothrow allocation (std::stable_sort buffer) changed the result of the operation");
    if (f.leaked != 0) return fail("leak", "blocks leaked after a failing nothrow allocation");
  }
  return false;
}

static bool case_c10(const Plan& pl, Stats& st, Violation& v, bool enumerate) {
  RunCtl ctl; ctl.env = pl.env;
  auto fail = [&](const char* cls, const std::string& detail, const Plan& p) { v.cls = cls; v.sig = cls; v.detail = detail; v.plan = p; return true; };
  if (!pl.faults.empty() && !enumerate) {
    // replay of an explicit fault
    RunOut a; sim_status_run(g_cur_run, 1, 0, 0); exec_seq(pl, ctl, a); ++st.evals; st.steps += a.steps;
    const Fault& ft = pl.faults[0];
    const char* kind = ft.op >= 0 && ft.op < (int)pl.ops.size() ? pl.ops[(size_t)ft.op].kind.c_str() : "?";
    return c10_fault_run(pl, a, ft.op, ft.alloc, ft.kind, st, v, kind);
  }
  sim_status_run(g_cur_run, 1, 0, 0);
  RunOut a; exec_seq(pl, ctl, a); ++st.evals; st.steps += a.steps; st.digest = run_digest(a);
  if (pl.variant == 2 && !enumerate) { sim_status_run(g_cur_run, 2, 0, 0); RunCtl cv = ctl; cv.env = env_twin(pl.env); RunOut x; exec_seq(pl, cv, x); ++st.evals; }
  if (pl.variant == 3 && !enumerate) { sim_status_run(g_cur_run, 3, 0, 0); RunCtl cv = ctl; cv.nothrow_fail_all = true; RunOut x; exec_seq(pl, cv, x); ++st.evals; }
  bool bad = false; std::string why;
  for_each_res(a, [&](const OpResult& o) {
    if (o.outcome == 3 && !bad) { bad = true; why = "op " + std::to_string(o.op) + " threw an unexpected exception: " + o.detail; }
    if (o.outcome == 1 && !bad) { bad = true; why = "op " + std::to_string(o.op) + " threw std::bad_alloc although no allocation failed"; }
    if (o.outcome == 2) ++st.cex;
  });
  if (bad) return fail("unexpected-exception", why, pl);
  if (a.leaked != 0) {
    RunOut a2; exec_seq(pl, ctl, a2); ++st.evals;
    if (a2.leaked != 0) return fail("leak", std::to_string(a2.leaked) + " block(s) allocated by the operations are still live after every object was destroyed", pl);
  }
  if (g_max_phase < 2) return false;
  // twin: different addresses and garbage pattern; everything observable must be identical
  sim_status_run(g_cur_run, 2, 0, 0);
  RunCtl c2 = ctl; c2.env = env_twin(pl.env);
  RunOut b; exec_seq(pl, c2, b); ++st.evals; ++st.twin_runs; st.steps += b.steps;
  std::string d = cmp_runs(a, b, true);
  if (!d.empty() && cmp_runs(a, b, false).empty()) {
    // same results, other allocation / step counts: either the first execution paid for a one-time initialisation inside the
    // library (a lazily built constant table - legitimate), or the counts depend on addresses / garbage. A third execution
    // under the first key, now warm, decides: it must agree with the twin in every count.
    RunOut a2; exec_seq(pl, ctl, a2); ++st.evals; st.steps += a2.steps;
    d = cmp_runs(a2, b, true);
    if (d.empty()) a = std::move(a2);
  }
  if (!d.empty()) { Plan p2 = pl; p2.note = "twin env " + std::to_string(c2.env); return fail("nondeterministic", "two executions that differ only in heap addresses and in the garbage that fresh memory contains disagree: " + d, p2); }
  // all nothrow requests fail (std::stable_sort falls back to its in-place path): same results
  if (a.nt_allocs > 0 && g_max_phase >= 3) {
    sim_status_run(g_cur_run, 3, 0, 0);
    RunCtl c3 = ctl; c3.nothrow_fail_all = true;
    RunOut c; exec_seq(pl, c3, c); ++st.evals; st.steps += c.steps;
    std::string d3 = cmp_runs(a, c, false);
    if (!d3.empty()) return fail("nothrow-fallback-differs", "with every nothrow allocation failing the results differ: " + d3, pl);
  }
  if (g_max_phase < 4) return false;
  // enumerate faults: every throwing allocation of every op (or a stratified sample above the cap)
  std::vector<const OpResult*> rs; for_each_res(a, [&](const OpResult& o) { rs.push_back(&o); });
  int64_t total = 0; for (const OpResult* o : rs) total += o->allocs;
  Rng fr(mix64(mix64(pl.seed, tag64("fault")), pl.run));
  for (const OpResult* o : rs) {
    const char* kind = pl.ops[(size_t)o->op].kind.c_str();
    int64_t n = o->allocs;
    if (n > 0) {
      if (total <= g_fault_cap) { for (int64_t k = 0; k < n; ++k) if (c10_fault_run(pl, a, o->op, k, 0, st, v, kind)) return true; }
      else {
        int64_t share = std::max<int64_t>(20, (int64_t)g_fault_cap * n / total);
        if (n <= share) { for (int64_t k = 0; k < n; ++k) if (c10_fault_run(pl, a, o->op, k, 0, st, v, kind)) return true; }
        else {
          int64_t head = share / 3, tail = share / 3, mid = share - head - tail;
          for (int64_t k = 0; k < head; ++k) if (c10_fault_run(pl, a, o->op, k, 0, st, v, kind)) return true;
          for (int64_t k = n - tail; k < n; ++k) if (c10_fault_run(pl, a, o->op, k, 0, st, v, kind)) return true;
          for (int64_t j = 0; j < mid; ++j) { int64_t lo = head + (n - head - tail) * j / mid, hi = head + (n - head - tail) * (j + 1) / mid; int64_t k = lo + (int64_t)fr.below((uint64_t)std::max<int64_t>(1, hi - lo)); if (c10_fault_run(pl, a, o->op, k, 0, st, v, kind)) return true; }
        }
      }
    }
    for (int64_t k = 0; k < o->nt_allocs && k < 8; ++k) if (c10_fault_run(pl, a, o->op, k, 1, st, v, kind)) return true;
  }
  for_each_res(a, [&](const OpResult& o) { (void)o; });
  return false;
}

// ------------------------------------------------------------------ C12 engine
static bool case_c12(const Plan& pl, Stats& st, Violation& v) {
  RunCtl ctl; ctl.env = pl.env; ctl.model = 1;
  sim_status_run(g_cur_run, 1, 0, 0);
  RunOut a; exec_seq(pl, ctl, a); ++st.evals; st.steps += a.steps; st.digest = run_digest(a);
  bool found = false;
  for_each_res(a, [&](const OpResult& o) {
    if (o.compared) { ++st.compared; if (o.nontrivial) { ++st.nontrivial; st.keys.insert(tag64(o.shape.c_str())); } }
    if (!found && !o.vclass.empty()) { found = true; v.cls = o.vclass; v.sig = o.vclass + " " + o.sig; v.detail = "op " + std::to_string(o.op) + " (" + pl.ops[(size_t)o.op].kind + "): " + o.detail; v.plan = pl; }
    if (!found && o.outcome == 3) { found = true; v.cls = "unexpected-exception"; v.sig = v.cls; v.detail = o.detail; v.plan = pl; }
  });
  if (found) return true;
  // repeated runs are bit-identical: twin history under another allocator-perturbation key; nothrow requests
  // additionally fail in half of the runs (legal environment variation that must not change anything)
  sim_status_run(g_cur_run, 2, 0, 0);
  RunCtl c2; c2.env = env_twin(pl.env); c2.model = 0; c2.nothrow_fail_all = (pl.run & 1) != 0;
  RunOut b; exec_seq(pl, c2, b); ++st.evals; ++st.twin_runs; st.steps += b.steps;
  std::string d = cmp_runs(a, b, false);
  if (!d.empty()) { v.cls = "twin-mismatch"; v.sig = v.cls; v.detail = "the same history executed twice (different heap addresses / garbage" + std::string(c2.nothrow_fail_all ? " / failing nothrow requests" : "") + ") gave different results: " + d; v.plan = pl; return true; }
  if (a.leaked != 0) { v.cls = "leak"; v.sig = v.cls; v.detail = "blocks still live after the history's objects were destroyed"; v.plan = pl; return true; }
  // fault histories: one operation ends with an exception (an allocation fails, or the caller's own callback throws); the
  // object is then only cleared or destroyed, and whatever the history does with it after Clear() must again equal a
  // fresh object. The fault is resolved modulo the operation's allocation / callback count (the plan stays valid when shrunk).
  if (!pl.faults.empty()) {
    const Fault& f0 = pl.faults[0];
    const OpResult* r0 = find_res(a, f0.op);
    int64_t n = r0 ? (f0.kind == 2 ? r0->cbs : r0->allocs) : 0;
    if (n > 0 && (f0.kind == 0 || f0.kind == 2)) {
      sim_status_run(g_cur_run, 4, (uint64_t)f0.op, (uint64_t)(f0.alloc % n));
      RunCtl c3; c3.env = pl.env; c3.model = 3; c3.fault = f0; c3.fault.alloc = f0.alloc % n;
      RunOut fr; exec_seq(pl, c3, fr); ++st.evals; st.steps += fr.steps;
      if (fr.fault_fired) { ++st.fault_runs; ++st.by_kind[pl.ops[(size_t)f0.op].kind]; }
      bool foundf = false;
      for_each_res(fr, [&](const OpResult& o) {
        if (o.compared) { ++st.compared; if (o.nontrivial) { ++st.nontrivial; st.keys.insert(tag64((o.shape + "|after-exception").c_str())); } }
        if (!foundf && !o.vclass.empty()) { foundf = true; v.cls = o.vclass; v.sig = o.vclass + " " + o.sig + " after-exception"; v.detail = "after an exception had escaped from op " + std::to_string(f0.op) + " (" + pl.ops[(size_t)f0.op].kind + (f0.kind == 2 ? ", thrown by the caller's callback" : ", std::bad_alloc") + ") and the object had been cleared: op " + std::to_string(o.op) + " (" + pl.ops[(size_t)o.op].kind + "): " + o.detail; v.plan = pl; }
        if (!foundf && o.outcome == 3) { foundf = true; v.cls = "unexpected-exception"; v.sig = v.cls + " after-exception"; v.detail = o.detail; v.plan = pl; }
      });
      if (foundf) { v.plan.faults.clear(); Fault fx = f0; fx.alloc = f0.alloc % n; v.plan.faults.push_back(fx); return true; }
    }
  }
  return false;
}

// ------------------------------------------------------------------ C14 engine
struct ChooserCtx {
  const Plan* pl; Rng rng; size_t pos = 0; int ntasks; bool explicit_sched;
  std::vector<Seg> taken;             // the schedule actually taken, for the replay file
  bool monitor_static = false; int64_t static_diff_off = -1, unguarded_off = -1; uint64_t static_checks = 0, rebaselined = 0;
  std::vector<uint64_t> brackets;     // per task: guard_brackets seen at the previous turn
  uint64_t colocated = 0;
  TaskCtx** ctxs = nullptr;
};
static FILE* g_sched_log = nullptr;
static void chooser(void* vctx, uint64_t alive, int last, uint32_t last_guard, int* task, uint64_t* q) {
  ChooserCtx* c = (ChooserCtx*)vctx;
  if (c->monitor_static) {
    ++c->static_checks;
    int64_t off = rt_static_diff();
    if (off >= 0) {
      if (c->static_diff_off < 0) c->static_diff_off = off;
      // a write to static storage by a task that did not go through a function-local-static guard in this
      // segment is unsynchronised (even if it happens only once: racy lazy initialisation)
      bool guarded = last >= 0 && c->ctxs && c->ctxs[last] && c->ctxs[last]->guard_brackets != c->brackets[(size_t)last];
      if (!guarded && last >= 0 && c->unguarded_off < 0) c->unguarded_off = off;
      ++c->rebaselined; rt_static_snapshot();
    }
    if (last >= 0 && c->ctxs && c->ctxs[last]) c->brackets[(size_t)last] = c->ctxs[last]->guard_brackets;
  }
  if (!alive) return;
  auto lowest = [&]() { int t = 0; while (!(alive >> t & 1)) ++t; return t; };
  if (c->explicit_sched) {
    if (c->pos < c->pl->sched.size()) { const Seg& s = c->pl->sched[c->pos++]; *task = (s.task >= 0 && s.task < c->ntasks && (alive >> s.task & 1)) ? s.task : lowest(); *q = s.quantum;
      if (s.watch && c->ctxs && c->ctxs[*task]) c->ctxs[*task]->watch_guard = s.watch; }
    else { *task = lowest(); *q = ~0ull; }
    return;
  }
  int n = __builtin_popcountll(alive);
  int pick = (int)c->rng.below((uint64_t)n), t = 0;
  for (;; ++t) if (alive >> t & 1) { if (pick-- == 0) break; }
  uint64_t quantum; uint32_t watch = 0;
  unsigned m = (unsigned)c->rng.below(100);
  if (m < 40) quantum = 1 + c->rng.below(20);
  else if (m < 65) quantum = 20 + c->rng.below(2000);
  else if (m < 80) quantum = 2000 + c->rng.below(50000);
  else if (m < 90) quantum = ~0ull;                       // until the next yield point (callback) or the end
  else {
    // co-location: run another task until it reaches the very edge the last task was preempted at
    quantum = 300000;
    if (last >= 0 && n > 1 && last_guard) {
      if (t == last) { for (t = 0;; ++t) if ((alive >> t & 1) && t != last) break; }
      if (c->ctxs && c->ctxs[t]) { c->ctxs[t]->watch_guard = last_guard; ++c->colocated; watch = last_guard; }
    }
  }
  *task = t; *q = quantum;
  c->taken.push_back(Seg{t, quantum, watch});
  if (g_sched_log) { fprintf(g_sched_log, "seg t=%d q=%" PRIu64 " w=%u\n", t, quantum, watch); fflush(g_sched_log); }
}

struct TaskArg { const Plan* pl; WorkShared* ws; std::vector<TaskOut>* outs; };
static void task_fn(void* a, int task) { TaskArg* ta = (TaskArg*)a; work_exec_task(*ta->pl, task, ta->ws, (*ta->outs)[(size_t)task], 0); }
struct PrepCtx { const Plan* pl; Fault ft; };
static void prep_fn(void* p, int task, TaskCtx* t) {
  PrepCtx* pc = (PrepCtx*)p;
  if (pc->ft.op >= 0 && pc->pl->ops[(size_t)pc->ft.op].task == task) { t->fault_op = pc->ft.op; t->fault_alloc = pc->ft.alloc; t->fault_kind = pc->ft.kind; }
}

static bool g_static_monitor = false;

// where a monitored byte lives (rt_static_diff's encoding)
static std::string where_of(int64_t off) {
  char b[160];
  if (off >= ((int64_t)1 << 41)) snprintf(b, sizeof b, "a heap block that outlived every object of an earlier execution (arena offset 0x%" PRIx64 ": reachable only through library-owned static state)", (uint64_t)(off - ((int64_t)1 << 41)));
  else if (off >= ((int64_t)1 << 40)) snprintf(b, sizeof b, "a heap block that library code allocated before main() (block #%" PRId64 ")", off - ((int64_t)1 << 40));
  else snprintf(b, sizeof b, "library static storage at offset 0x%" PRIx64 " of libclipsim.so", (uint64_t)off);
  return b;
}

// The same plan with every input nudged (paths translated by a few units, real-valued parameters scaled by 33/32): another
// legal input of the same shape and cost. A table that is built once does not care; a cache keyed by the inputs writes again.
static Plan perturb_plan(const Plan& pl) {
  Plan q = pl; q.faults.clear(); q.sched.clear();
  const int64_t LIM = (int64_t)1 << 61;
  for (Op& o : q.ops) {
    for (int k = 0; k < 3; ++k) {
      if (o.hasP[k]) {
        int64_t hx = INT64_MIN, ly = INT64_MAX;
        for (const PPath& p : o.P[k]) for (const PPt& c : p) { hx = std::max(hx, c.x); ly = std::min(ly, c.y); }
        int64_t dx = hx > LIM ? -3 : 3, dy = ly < -LIM ? 2 : -2;
        for (PPath& p : o.P[k]) for (PPt& c : p) { c.x += dx; c.y += dy; }
      }
      if (o.hasD[k]) for (auto& p : o.D[k]) for (auto& c : p) { c.x += 1.0; c.y -= 0.5; }
    }
    for (double& d : o.d) d *= 1.03125;
  }
  return q;
}

static bool case_c14(const Plan& pl0, Stats& st, Violation& v) {
  Plan pl = pl0;
  RunCtl ctl; ctl.env = pl.env;
  RunOut ref; bool have_ref = false;
  auto run_ref = [&]() {
    // sequential reference: every task's program run one after another on the main thread
    sim_status_run(g_cur_run, 1, 0, 0);
    exec_seq(pl, ctl, ref); ++st.evals; st.steps += ref.steps; have_ref = true;
  };
  // The optional fault is resolved modulo the op's allocation count (the plan stays valid under shrinking), which needs
  // the reference first. Without a fault the interleaved execution goes FIRST, so that whatever the library initialises
  // lazily is initialised while several threads are in flight (cold start), not by the single-threaded reference.
  Fault ft;
  if (!pl.faults.empty()) {
    run_ref();
    const OpResult* r = find_res(ref, pl.faults[0].op);
    // The reference stays fault-free: whether and where the fault fires in the task may legitimately differ from the
    // main thread (e.g. a thread_local scratch buffer that already has capacity there). What must hold is that the
    // OTHER tasks are unaffected; the faulted task is compared up to the faulted operation only.
    if (r && r->allocs > 0) { ft = pl.faults[0]; ft.alloc = pl.faults[0].alloc % r->allocs; ++st.fault_runs; }
  }
  int64_t first_unguarded = -1; Plan first_exp;
  for (int rep = 0; rep < 2; ++rep) {
    if (g_stop) { g_aborted = true; return false; }          // time box used up: abandon the case (it is not counted)
    sim_status_run(g_cur_run, 6 + (uint64_t)rep, 0, 0);
    rt_set_env(env_twin(pl.env) + (uint64_t)rep);
    TaskOut setup; std::vector<TaskOut> outs((size_t)pl.ntasks);
    WorkShared* ws = work_shared_create(pl, setup, 0);
    ChooserCtx cc; cc.pl = &pl; cc.rng = Rng(pl.sched_seed); cc.ntasks = pl.ntasks; cc.explicit_sched = !pl.sched.empty(); cc.monitor_static = g_static_monitor;
    cc.brackets.assign((size_t)pl.ntasks, 0);
    std::vector<TaskCtx*> ctxs((size_t)pl.ntasks, nullptr); cc.ctxs = ctxs.data();
    if (cc.monitor_static) rt_static_snapshot();
    TaskArg ta{&pl, ws, &outs}; PrepCtx pc{&pl, ft};
    std::vector<SchedSeg> log(4096); size_t nlog = 0; SchedResult sr;
    rt_run_tasks(pl.ntasks, task_fn, &ta, chooser, &cc, g_budget, log.data(), log.size(), &nlog, &sr, ctxs.data(), prep_fn, &pc);
    work_shared_destroy(ws);
    if (ft.op >= 0) rt_arena_expect_leaks(); else rt_arena_preserve_live();
    rt_env_release();
    ++st.evals; st.switches += sr.switches; st.lib_preempt += sr.lib_preemptions; st.static_checks += cc.static_checks; st.colocated += cc.colocated;
    uint64_t h = 1469598103934665603ull, hd = 1469598103934665603ull; uint64_t steps = 0;
    // h identifies the interleaving (distinct-interleavings measure); hd, which goes into the case digest, leaves the edge ids out:
    // which of two sibling edges a sanitizer check takes (UBSan's vptr type cache: hit or miss) is not a property of the case
    for (size_t k = 0; k < nlog; ++k) { h ^= ((uint64_t)log[k].task << 56) ^ (log[k].ran << 20) ^ ((uint64_t)log[k].at_guard << 2) ^ (uint64_t)log[k].why; h *= 1099511628211ull; h ^= h >> 29;
      hd ^= ((uint64_t)log[k].task << 56) ^ (log[k].ran << 20) ^ (uint64_t)log[k].why; hd *= 1099511628211ull; hd ^= hd >> 29; steps += log[k].ran; if (log[k].why == 1) ++st.yields_cb; }
    st.steps += steps;
    if (getenv("SIM_DUMP_OPS")) for (size_t k = 0; k < nlog; ++k) fprintf(stderr, "SEGLOG rep=%d k=%zu task=%d ran=%" PRIu64 " at=%u why=%d\n", rep, k, log[k].task, log[k].ran, log[k].at_guard, log[k].why);
    if (sr.tasks_preempted_in_lib >= 2 && rep == 0) { ++st.runs_two_preempted; st.keys.insert(h); }
    if (!have_ref) run_ref();
    if (rep == 0) { st.digest = run_digest(ref); st.sched_digest = hd; }
    // explicit schedule for the replay file
    Plan exp = pl; if (!cc.explicit_sched) { exp.sched = cc.taken; }
    if (ft.op >= 0) { exp.faults.clear(); exp.faults.push_back(pl.faults[0]); }
    if (sr.runtime_state_call) {
      v.cls = "process-global-state"; v.sig = std::string("process-global-state ") + sr.runtime_state_call;
      v.detail = std::string("library code called ") + sr.runtime_state_call + "(): mutable state of the C/C++ runtime that is shared by all threads and lives outside the caller's objects"; v.plan = exp; return true;
    }
    // detector A: equivalence with sequential execution
    RunOut inter; inter.setup = std::move(setup); inter.tasks = std::move(outs);
    RunOut refv = ref;
    if (ft.op >= 0) {
      int ftask = pl.ops[(size_t)ft.op].task;
      auto cut = [&](std::vector<OpResult>& v) { size_t k = 0; while (k < v.size() && v[k].op < ft.op) ++k; v.resize(k); };
      if (ftask >= 0 && ftask < pl.ntasks) { cut(refv.tasks[(size_t)ftask].res); cut(inter.tasks[(size_t)ftask].res); }
    }
    std::string d = cmp_runs(refv, inter, false);
    if (!d.empty()) { v.cls = "differs-from-sequential"; v.sig = v.cls; v.detail = "operations on independent objects returned something else when interleaved with other threads than when run one after another: " + d; v.plan = exp; return true; }
    // detector B: static storage written by library code
    if (!cc.monitor_static) return false;
    if (cc.static_diff_off < 0) { if (rep == 0) return false; break; }   // rep 1 without a change: the write of rep 0 was a one-time write
    char b[480];
    if (rep == 0) { st.static_rebaselined += cc.rebaselined; first_unguarded = cc.unguarded_off; first_exp = exp; continue; }   // changed once: execute the same plan again
    // it changed again: mutable state outside caller-owned objects, however it is synchronised
    snprintf(b, sizeof b, "%s changes on every execution (mutable state outside caller-owned objects)", where_of(cc.static_diff_off).c_str());
    v.cls = "static-write"; v.sig = "static-write recurring"; v.detail = b; v.plan = exp; return true;
  }
  if (g_static_monitor && first_unguarded >= -1 && !first_exp.ops.empty()) {
    // written during the first execution, untouched by the identical second one: a table built once - or a cache keyed by
    // the inputs. A third execution with nudged inputs tells them apart.
    Plan pp = perturb_plan(pl);
    sim_status_run(g_cur_run, 8, 0, 0);
    rt_set_env(env_twin(pl.env) + 2);
    TaskOut setup; std::vector<TaskOut> outs((size_t)pp.ntasks);
    WorkShared* ws = work_shared_create(pp, setup, 0);
    ChooserCtx cc; cc.pl = &pp; cc.rng = Rng(pl.sched_seed ^ 0x5bd1e995); cc.ntasks = pp.ntasks; cc.explicit_sched = false; cc.monitor_static = true;
    cc.brackets.assign((size_t)pp.ntasks, 0);
    std::vector<TaskCtx*> ctxs((size_t)pp.ntasks, nullptr); cc.ctxs = ctxs.data();
    rt_static_snapshot();
    TaskArg ta{&pp, ws, &outs}; PrepCtx pc{&pp, Fault()};
    std::vector<SchedSeg> log(4096); size_t nlog = 0; SchedResult sr;
    rt_run_tasks(pp.ntasks, task_fn, &ta, chooser, &cc, g_budget, log.data(), log.size(), &nlog, &sr, ctxs.data(), prep_fn, &pc);
    work_shared_destroy(ws);
    rt_arena_preserve_live();
    rt_env_release();
    ++st.evals; st.static_checks += cc.static_checks;
    if (cc.static_diff_off >= 0) {
      char b[400];
      snprintf(b, sizeof b, "%s was written by the first execution, left alone by an identical second one and written again when the same operations ran on slightly different inputs: a cache keyed by the inputs, i.e. mutable state outside caller-owned objects, however it is synchronised", where_of(cc.static_diff_off).c_str());
      v.cls = "static-write"; v.sig = "static-write input-dependent"; v.detail = b; v.plan = first_exp; return true;
    }
  }
  if (first_unguarded >= 0) {
    // written once, and not under a magic-static / call_once / mutex guard: racy lazy initialisation or a correct lock-free
    // one - the driver lets ThreadSanitizer arbitrate
    char b[480];
    snprintf(b, sizeof b, "a task wrote %s once, outside any function-local-static / call_once / mutex guard (unsynchronised lazy initialisation?)", where_of(first_unguarded).c_str());
    v.cls = "static-write"; v.sig = "static-write unguarded"; v.detail = b; v.plan = first_exp; return true;
  }
  return false;
}

// ------------------------------------------------------------------ plumbing
static std::string read_file(const char* path) { std::ifstream f(path, std::ios::binary); std::stringstream ss; ss << f.rdbuf(); return ss.str(); }
static void write_file(const std::string& path, const std::string& text) { std::ofstream f(path, std::ios::binary); f << text; }

static Plan gen_plan(const std::string& prop, uint64_t seed, uint64_t run, const std::string& cfg) {
  if (prop == "C10") return gen_c10(seed, run, cfg);
  if (prop == "C12") return gen_c12(seed, run, cfg);
  return gen_c14(seed, run, cfg);
}
static uint64_t g_budget_base = 0; static bool g_budget_fixed = false;
static bool run_case(const Plan& pl, Stats& st, Violation& v, bool enumerate) {
  // the step budget grows with the size of the input (long paths are part of the workload); SIM_BUDGET fixes it
  if (!g_budget_base) g_budget_base = g_budget;
  if (!g_budget_fixed) {
    uint64_t npts = 0;
    for (const Op& o : pl.ops) for (int k = 0; k < 3; ++k) { if (o.hasP[k]) for (const PPath& q : o.P[k]) npts += q.size(); if (o.hasD[k]) for (const auto& q : o.D[k]) npts += q.size(); }
    g_budget = g_budget_base + 2000000ull * npts;
  }
  if (pl.prop == "C10") return case_c10(pl, st, v, enumerate);
  if (pl.prop == "C12") return case_c12(pl, st, v);
  return case_c14(pl, st, v);
}

static void on_term(int) { g_stop = 1; }
static void on_terminate() {
  fprintf(stderr, "\nSIMDIE code=82 kind=terminate std::terminate called (exception escaped a noexcept function or destructor, or was not caught)\n");
  fflush(stderr); fflush(stdout); _exit(82);
}

static void print_stats(FILE* f, const Stats& st) {
  fprintf(f, "evals=%" PRIu64 " steps=%" PRIu64 " fault_runs=%" PRIu64 " nothrow_fault_runs=%" PRIu64 " fault_in_lib=%" PRIu64 " leaked_after_fault=%" PRIu64 " twin=%" PRIu64
          " compared=%" PRIu64 " nontrivial=%" PRIu64 " cex=%" PRIu64 " switches=%" PRIu64 " lib_preempt=%" PRIu64 " two_preempted=%" PRIu64 " static_checks=%" PRIu64 " static_rebaselined=%" PRIu64
          " cb_yields=%" PRIu64 " colocated=%" PRIu64 " keys=%zu",
          st.evals, st.steps, st.fault_runs, st.nothrow_fault_runs, st.fault_fired_in_lib, st.leaked_after_fault, st.twin_runs, st.compared, st.nontrivial, st.cex, st.switches, st.lib_preempt,
          st.runs_two_preempted, st.static_checks, st.static_rebaselined, st.yields_cb, st.colocated, st.keys.size());
}

int main(int argc, char** argv) {
  // Address-space randomisation off (re-exec once): which entries collide in UBSan's vptr type cache, and anything else that
  // looks at absolute addresses, is then the same in every process.
  if (!getenv("SIM_ASLR_OFF") && !rt_on_valgrind()) {
    int pers = personality(0xffffffff);
    if (pers != -1 && !(pers & ADDR_NO_RANDOMIZE) && personality(pers | ADDR_NO_RANDOMIZE) != -1) {
      setenv("SIM_ASLR_OFF", "1", 1);
      execv("/proc/self/exe", argv);
    }
  }
  std::set_terminate(on_terminate);
  if (argc < 2) { fprintf(stderr, "usage: sim gen|exec|worker ...\n"); return 2; }
  std::string cmd = argv[1];
  const char* status = getenv("SIM_STATUS_FILE");
  rt_init(status);
  work_warmup();
  g_static_monitor = getenv("SIM_STATIC_MONITOR") != nullptr;
  if (getenv("SIM_FAULT_CAP")) g_fault_cap = atoi(getenv("SIM_FAULT_CAP"));
  if (getenv("SIM_MAX_PHASE")) g_max_phase = atoi(getenv("SIM_MAX_PHASE"));
  if (getenv("SIM_BUDGET")) { g_budget = strtoull(getenv("SIM_BUDGET"), nullptr, 10); g_budget_fixed = true; }
  if (getenv("SIM_SCHED_LOG")) g_sched_log = fopen(getenv("SIM_SCHED_LOG"), "w");
  if (cmd == "gen" && argc >= 6) {
    Plan p = gen_plan(argv[2], strtoull(argv[3], nullptr, 10), strtoull(argv[4], nullptr, 10), argv[5]);
    fputs(plan_to_text(p).c_str(), stdout);
    return 0;
  }
  if (cmd == "info") {
    printf("usingz=%d guards=%u static_bytes=%zu lib_base=%#" PRIx64 "\n", work_has_usingz(), rt_num_guards(), rt_static_bytes(), rt_lib_base());
    return 0;
  }
  if (cmd == "pcs" && argc >= 3) {     // every instrumented edge of the library image (offsets), for the reach report
    std::ofstream f(argv[2], std::ios::binary); uint32_t n = rt_num_guards();
    for (uint32_t g = 1; g <= n; ++g) { uint64_t pc = rt_guard_pc(g); f.write((const char*)&pc, 8); }
    return 0;
  }
  if (cmd == "seqruns" && argc >= 6) {
    // sim seqruns <prop> <seed> <cfg> <r1> ... <rn>: executes the cases r1..rn one after another in this process, exactly as a
    // worker would, and prints the digest of the last one (process-history probe: it must equal the digest of rn run alone)
    std::string prop = argv[2]; uint64_t seed = strtoull(argv[3], nullptr, 10); std::string cfg = argv[4];
    uint64_t dig = 0;
    for (int k = 5; k < argc; ++k) {
      uint64_t r = strtoull(argv[k], nullptr, 10); Plan p = gen_plan(prop, seed, r, cfg); g_cur_run = r;
      Stats one; Violation v; run_case(p, one, v, true); dig = one.digest;
    }
    printf("DIGEST %016" PRIx64 "\n", dig);
    return 0;
  }
  if (cmd == "seq" && argc >= 3) {
    // sim seq <file>: several plans separated by a line '---next'; all are executed in this process, the digest of the last is printed
    std::string all = read_file(argv[2]); uint64_t dig = 0; size_t pos = 0;
    for (;;) {
      size_t e = all.find("\n---next\n", pos);
      std::string one_text = all.substr(pos, e == std::string::npos ? std::string::npos : e + 1 - pos);
      Plan p; std::string err;
      if (!plan_from_text(one_text, p, err)) { fprintf(stderr, "bad plan in sequence: %s\n", err.c_str()); return 2; }
      g_cur_run = p.run; Stats one; Violation v; run_case(p, one, v, true); dig = one.digest;
      if (e == std::string::npos) break;
      pos = e + 9;
    }
    printf("DIGEST %016" PRIx64 "\n", dig);
    return 0;
  }
  if (cmd == "exec" && argc >= 3) {
    bool enumerate = false; const char* detail = nullptr; const char* outplan = nullptr;
    for (int k = 3; k < argc; ++k) { if (!strcmp(argv[k], "--enumerate")) enumerate = true; else if (!strcmp(argv[k], "--detail") && k + 1 < argc) detail = argv[++k]; else if (!strcmp(argv[k], "--out") && k + 1 < argc) outplan = argv[++k]; }
    Plan p; std::string err;
    if (!plan_from_text(read_file(argv[2]), p, err)) { fprintf(stderr, "bad plan: %s\n", err.c_str()); return 2; }
    g_cur_run = p.run;
    if (getenv("SIM_REPEAT")) {   // debugging aid: per-repetition step counts and the guards whose hit count differs
      int n = atoi(getenv("SIM_REPEAT"));
      for (int i = 0; i < n; ++i) { Stats s1; Violation v1; rt_clear_guard_hits(); run_case(p, s1, v1, enumerate); printf("REPEAT %d steps=%" PRIu64 "\n", i, s1.steps); }
      return 0;
    }
    Stats st; Violation v;
    bool bad = run_case(p, st, v, enumerate);
    if (bad) {
      printf("VIOL class=%s sig=%s\n", v.cls.c_str(), v.sig.c_str());
      if (detail) write_file(detail, v.detail + "\n");
      if (outplan) { v.plan.expect = v.cls; write_file(outplan, plan_to_text(v.plan)); }
      else printf("DETAIL %s\n", v.detail.substr(0, 2000).c_str());
    }
    printf("DIGEST %016" PRIx64 "\n", st.digest);
    printf("RESULT %s ", bad ? "violation" : "ok"); print_stats(stdout, st); printf("\n");
    return bad ? 1 : 0;
  }
  if (cmd == "worker" && argc >= 10) {
    // sim worker <prop> <seed> <cfg> <start> <stride> <maxruns> <outdir> <wid>
    std::string prop = argv[2]; uint64_t seed = strtoull(argv[3], nullptr, 10); std::string cfg = argv[4];
    uint64_t start = strtoull(argv[5], nullptr, 10), stride = strtoull(argv[6], nullptr, 10), maxruns = strtoull(argv[7], nullptr, 10);
    std::string outdir = argv[8], wid = argv[9];
    signal(SIGTERM, on_term); signal(SIGINT, on_term);
    Stats st; uint64_t done = 0; int nviol = 0; std::set<std::string> seen_sigs;
    FILE* keysf = fopen((outdir + "/w" + wid + ".keys").c_str(), "wb");     // appended as the run proceeds: survives a crash of this worker
    std::string samples;
    for (uint64_t r = start; done < maxruns && !g_stop; r += stride, ++done) {
      Plan p = gen_plan(prop, seed, r, cfg);
      g_cur_run = r;
      if (done < 2) samples += plan_to_text(p) + "\n";
      printf("START %" PRIu64 "\n", r); fflush(stdout);
      if (getenv("SIM_GUARD_COUNTS")) memset(rt_guard_counts(true), 0, (rt_num_guards() + 2) * 4);
      Stats one; Violation v;
      bool bad = run_case(p, one, v, true);
      if (g_aborted) break;
      if (getenv("SIM_GUARD_COUNTS") && r == strtoull(getenv("SIM_GUARD_COUNTS_RUN") ? getenv("SIM_GUARD_COUNTS_RUN") : "0", nullptr, 10)) {
        FILE* f = fopen(getenv("SIM_GUARD_COUNTS"), "w"); uint32_t* c = rt_guard_counts(true);
        for (uint32_t g = 1; g <= rt_num_guards(); ++g) if (c[g]) fprintf(f, "%u %u %#" PRIx64 "\n", g, c[g], rt_guard_pc(g));
        fclose(f);
      }
      st.evals += one.evals; st.steps += one.steps; st.fault_runs += one.fault_runs; st.nothrow_fault_runs += one.nothrow_fault_runs; st.fault_fired_in_lib += one.fault_fired_in_lib;
      st.leaked_after_fault += one.leaked_after_fault; st.twin_runs += one.twin_runs; st.compared += one.compared; st.nontrivial += one.nontrivial; st.cex += one.cex; st.switches += one.switches;
      st.lib_preempt += one.lib_preempt; st.runs_two_preempted += one.runs_two_preempted; st.static_checks += one.static_checks; st.static_rebaselined += one.static_rebaselined; st.yields_cb += one.yields_cb; st.colocated += one.colocated;
      for (auto& kv : one.by_kind) st.by_kind[kv.first] += kv.second;
      for (uint64_t k : one.keys) if (st.keys.insert(k).second && keysf) fwrite(&k, 8, 1, keysf);
      if (keysf) fflush(keysf);
      // one report per coarse signature (incidental attributes dropped), so that frequent variants of one defect
      // neither flood the driver nor stop the search
      auto coarse = [](const std::string& s) {
        std::istringstream in(s); std::string tok, out;
        static const char* drop[] = {"et=", "jt=", "len=", "first_in_group=", "delta_sign=", "any_path_before=", "dcb=", "op="};
        while (in >> tok) { bool d = false; for (const char* p : drop) if (tok.compare(0, strlen(p), p) == 0) d = true; if (!d) { out += tok; out += ' '; } }
        return out;
      };
      if (bad && seen_sigs.insert(v.cls + "|" + coarse(v.sig)).second) {
        ++nviol;
        std::string pf = outdir + "/viol-" + wid + "-" + std::to_string(r) + ".plan";
        v.plan.expect = v.cls; write_file(pf, plan_to_text(v.plan)); write_file(pf + ".detail", v.detail + "\n");
        printf("VIOL %" PRIu64 " class=%s file=%s sig=%s\n", r, v.cls.c_str(), pf.c_str(), v.sig.c_str());
      }
      printf("END %" PRIu64 " dig=%016" PRIx64 " sd=%016" PRIx64 " evals=%" PRIu64 " steps=%" PRIu64 " faults=%" PRIu64 " keys=%zu\n", r, one.digest, one.sched_digest, one.evals, one.steps, one.fault_runs, one.keys.size()); fflush(stdout);
      if (nviol >= 400) break;
    }
    // dump coverage and keys for the evidence file
    if (keysf) fclose(keysf);
    { std::ofstream f(outdir + "/w" + wid + ".hits", std::ios::binary); uint32_t n = rt_num_guards(); const unsigned char* h = rt_guard_hits();
      for (uint32_t g = 1; g <= n; ++g) if (h[g]) { uint64_t pc = rt_guard_pc(g); f.write((const char*)&pc, 8); } }
    write_file(outdir + "/w" + wid + ".samples", samples);
    printf("DONE runs=%" PRIu64 " ", done); print_stats(stdout, st); printf(" guards=%u static_bytes=%zu", rt_num_guards(), rt_static_bytes());
    for (auto& kv : st.by_kind) printf(" fk:%s=%" PRIu64, kv.first.c_str(), kv.second);
    printf("\n"); fflush(stdout);
    return 0;
  }
  fprintf(stderr, "bad command line\n");
  return 2;
}
