// Seeded plan generators (exe side).
#pragma once
#include "plan.h"
namespace sim {
Plan gen_c10(uint64_t seed, uint64_t run, const std::string& cfg);
Plan gen_c12(uint64_t seed, uint64_t run, const std::string& cfg);
Plan gen_c14(uint64_t seed, uint64_t run, const std::string& cfg);
}
