// Copy construction of RectClip64 / RectClipLines64, in a translation unit of its own (see workcopy_off.cpp).
#include "clipper2/clipper.h"
namespace sim {
#ifdef SIM_COPY_STUB
Clipper2Lib::RectClip64* sim_clone_rc(const Clipper2Lib::RectClip64&) { return nullptr; }
Clipper2Lib::RectClipLines64* sim_clone_rcl(const Clipper2Lib::RectClipLines64&) { return nullptr; }
#else
Clipper2Lib::RectClip64* sim_clone_rc(const Clipper2Lib::RectClip64& s) { return new Clipper2Lib::RectClip64(s); }
Clipper2Lib::RectClipLines64* sim_clone_rcl(const Clipper2Lib::RectClipLines64& s) { return new Clipper2Lib::RectClipLines64(s); }
#endif
}
