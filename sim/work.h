// Interface of the instrumented workload interpreter (libclipsim.so).
#pragma once
#include "plan.h"
#include <string>
#include <vector>

namespace sim {

struct OpResult {
  int op = -1;
  int outcome = 0;        // 0 ok, 1 std::bad_alloc, 2 Clipper2Exception, 3 other exception, 4 skipped, 5 the harness callback threw (injected)
  uint64_t digest = 0;    // hash of everything the operation returned
  int64_t allocs = 0, nt_allocs = 0;   // in-scope allocation counts of this op
  int64_t cbs = 0;                     // user-callback invocations of this op
  bool compared = false;  // C12: an oracle comparison was made
  bool nontrivial = false;// C12: compared Execute ran on a used / cleared / sharing object (or multi-path offset call)
  std::string vclass;     // non-empty: violation class found by an in-interpreter oracle
  std::string detail;     // human-readable detail (only on violation)
  std::string sig;        // specific signature of the violation (for known-findings matching)
  std::string shape;      // C12: (class, op-kind multiset, exec kind) triple for the distinct-nontrivial measure
};

struct TaskOut {
  std::vector<OpResult> res;
  bool faulted = false;   // a bad_alloc came out of an op; remaining ops were skipped
  bool destroyed_ok = false;
};

struct WorkShared;        // opaque: shared (set-up) objects of a plan

WorkShared* work_shared_create(const Plan& plan, TaskOut& out, int model);  // runs task -1 ops on the calling thread
void work_shared_destroy(WorkShared* s);
// Executes all ops of one task (task index) of the plan on the calling thread.
void work_exec_task(const Plan& plan, int task, WorkShared* shared, TaskOut& out, int model);
int work_has_usingz();
void work_warmup();
const char* work_op_names();   // newline separated list of known op kinds

} // namespace sim
