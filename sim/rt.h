// Simulator runtime (exe side, never compiled with coverage or thread instrumentation).
// Owns: the allocator seam (S1), the step clock / preemption seam (S2), the task scheduler,
// the static-storage monitor (S4). See DESIGN.md section 2.
#pragma once
#include <cstdint>
#include <cstddef>

namespace sim {

// Per-task control block. One per simulated task (thread); the main thread has one too.
struct TaskCtx {
  int id = 0;
  // ---- scope: >0 while library code (or object construction/destruction) runs for an op
  int scope = 0;
  int op = -1;                 // plan op index currently in scope
  int64_t op_allocs = 0;       // throwing allocations seen in the current op scope
  int64_t op_nt_allocs = 0;    // nothrow allocations seen in the current op scope
  int64_t op_cbs = 0;          // user-callback invocations seen in the current op scope (fault kind 2: the n-th one throws)
  // ---- fault to inject (attached to an op, never a global call index)
  int fault_op = -1; int64_t fault_alloc = -1; int fault_kind = 0;
  bool fault_fired = false; uint32_t fault_guard = 0;
  bool nothrow_fail_all = false;   // legal environment variation: every nothrow request fails
  int64_t nothrow_failed = 0;
  // ---- clock
  uint64_t steps = 0;          // edges executed by instrumented code on this task
  uint64_t step_limit = ~0ull; // next preemption / budget check
  uint64_t budget = ~0ull;     // hang budget (absolute steps)
  uint32_t last_guard = 0;
  // ---- accounting (in-scope allocations only)
  int64_t total_allocs = 0, total_nt_allocs = 0;
  // ---- scheduler
  bool preemptible = false;    // task runs under the scheduler
  bool until_event = false;    // current quantum ends at the next yield point
  uint32_t watch_guard = 0;    // co-location: yield when this edge is reached
  int guard_depth = 0;         // >0 while holding a __cxa_guard: not preemptible
  uint64_t guard_brackets = 0; // number of function-local-static initialisations this task performed under a guard
  uint64_t yields = 0;
  const char* runtime_state_call = nullptr;   // first process-global runtime function the library called (rand, setlocale, ...)
};

struct AllocStats {
  int64_t live_blocks = 0;      // in-scope blocks currently live
  int64_t live_bytes = 0, peak_bytes = 0;
  int64_t max_request = 0;
  int64_t mismatched_delete = 0;
  int64_t header_corrupt = 0;
};

extern "C" {
TaskCtx* sim_cur();                       // current task (thread_local), never null after sim_init
void sim_scope_enter(int op);
void sim_scope_leave();
int rt_on_valgrind();
void sim_yield_point(int kind);           // semantic yield point (user callbacks)
extern "C" int sim_cb_fault();           // 1: this callback invocation is the one the plan's fault (kind 2) makes throw
void sim_status_run(uint64_t run, uint64_t phase, uint64_t fop, uint64_t falloc); // crash-attribution words (mmap'd status file)
void sim_status_op(uint64_t op);
void sim_status_flag(uint64_t flag);         // context flags for crash attribution (1 = a clipper holds the same container twice)
void sim_limit_op_budget(uint64_t edges);    // lower the hang budget for the rest of this execution (known-divergent situations)
}

void rt_init(const char* status_path);
void rt_set_env(uint64_t env_key);        // allocator perturbation key for the next execution
void rt_env_release();                    // frees spacers / deferred blocks of the execution
void rt_arena_preserve_live();            // a fault-free execution ended: whatever is still live may be referenced (static/TLS caches), keep it
void rt_arena_expect_leaks();             // the execution that just ended injected a fault: blocks it leaked are unreferenced, recycle them
AllocStats& rt_alloc_stats();
void rt_reset_alloc_stats();
uint32_t rt_num_guards();
uint32_t* rt_guard_counts(bool enable);     // debugging aid
const unsigned char* rt_guard_hits();     // [0..num_guards] byte per guard: hit at least once
void rt_clear_guard_hits();
uint64_t rt_total_steps();                // all tasks, whole process
// pc table (from -fsanitize-coverage=pc-table): guard id -> pc offset in libclipsim.so
uint64_t rt_guard_pc(uint32_t guard);     // 0 if unknown
uint64_t rt_lib_base();

// ---- static storage monitor (S4) ----
struct StaticRegion { const unsigned char* p; size_t n; };
int rt_static_regions(StaticRegion* out, int max);   // writable, non-RELRO PT_LOAD ranges of libclipsim.so
uint64_t rt_static_digest();
size_t rt_static_bytes();
size_t rt_static_bytes_all();   // static storage + heap blocks the library allocated before main() + preserved arena
// snapshot/compare helpers: returns first differing offset (relative to lib base) or -1
void rt_static_snapshot();
int64_t rt_static_diff();

// ---- scheduler: real threads, exactly one runnable at a time ----
typedef void (*TaskFn)(void* arg, int task);
struct SchedSeg { int task; uint64_t quantum; uint64_t ran; uint32_t at_guard; int why; }; // why: 0 quantum,1 yield-point,2 finished
struct SchedResult { uint64_t switches = 0; uint64_t lib_preemptions = 0; int tasks_preempted_in_lib = 0; const char* runtime_state_call = nullptr; };
// Runs ntasks tasks under the schedule chooser. choose(ctx, alive_mask, &task, &quantum) picks the next segment.
typedef void (*ChooseFn)(void* ctx, uint64_t alive_mask, int last_task, uint32_t last_guard, int* task, uint64_t* quantum);
void rt_run_tasks(int ntasks, TaskFn fn, void* arg, ChooseFn choose, void* choose_ctx,
                  uint64_t budget_per_task, SchedSeg* log, size_t log_cap, size_t* log_n, SchedResult* res,
                  TaskCtx** out_ctxs /* array[ntasks], optional: per-task fault set-up before start */,
                  void (*prepare)(void* ctx, int task, TaskCtx* t), void* prepare_ctx);

[[noreturn]] void rt_die(int code, const char* fmt, ...);

} // namespace sim
