// Workload interpreter: executes plan operations against the REAL Clipper2 code.
// This is the only TU (besides the three library sources) that includes the Clipper2 headers, so all
// header-only library code is instantiated here, inside libclipsim.so, compiled with the sanitizers and
// -fsanitize-coverage=trace-pc-guard. It keeps no mutable static storage of its own.
#include <type_traits>
#include "clipper2/clipper.h"
#include "work_int.h"
#include <cinttypes>
#include <cstring>
#include <functional>
#include <map>
#include <memory>
#include <sstream>

using namespace Clipper2Lib;

namespace sim {
namespace {

static void dump_pt(std::string& s, const Point64& p) {
  char b[96];
#ifdef USINGZ
  snprintf(b, sizeof b, "%" PRId64 ",%" PRId64 ",%" PRId64, p.x, p.y, p.z);
#else
  snprintf(b, sizeof b, "%" PRId64 ",%" PRId64, p.x, p.y);
#endif
  s += b;
}
static void dump_pt(std::string& s, const PointD& p) {
  char b[128];
#ifdef USINGZ
  snprintf(b, sizeof b, "%.17g,%.17g,%" PRId64, p.x, p.y, p.z);
#else
  snprintf(b, sizeof b, "%.17g,%.17g", p.x, p.y);
#endif
  s += b;
}
template <typename T> static std::string dump_paths(const Paths<T>& pp) {
  std::string s;
  if (pp.empty()) return "-";
  for (const auto& p : pp) { bool f = true; for (const auto& q : p) { if (!f) s += ":"; f = false; dump_pt(s, q); } s += ";"; }
  return s;
}
template <typename TR> static void dump_tree(std::string& s, const TR& t, int lvl) {
  s += "{" + std::to_string(lvl) + ":";
  bool f = true; for (const auto& q : t.Polygon()) { if (!f) s += ":"; f = false; dump_pt(s, q); }
  for (const auto& c : t) dump_tree(s, *c, lvl + 1);
  s += "}";
}

// ------------------------------------------------------------------ plan value -> library value
static inline Point64 mk64(const PPt& q) {
#ifdef USINGZ
  return Point64(q.x, q.y, q.z);
#else
  return Point64(q.x, q.y);
#endif
}
static inline PointD mkD(const PPtD& q) {
#ifdef USINGZ
  return PointD(q.x, q.y, q.z);
#else
  return PointD(q.x, q.y);
#endif
}
static Path64 to64(const PPath& p) { Path64 r; r.reserve(p.size()); for (const PPt& q : p) r.push_back(mk64(q)); return r; }
static Paths64 to64(const PPaths& pp) { Paths64 r; r.reserve(pp.size()); for (const PPath& p : pp) r.push_back(to64(p)); return r; }
static PathD toD(const PPathD& p) { PathD r; r.reserve(p.size()); for (const PPtD& q : p) r.push_back(mkD(q)); return r; }
static PathsD toD(const PPathsD& pp) { PathsD r; r.reserve(pp.size()); for (const PPathD& p : pp) r.push_back(toD(p)); return r; }

static inline ClipType ct_of(int64_t v) { return (ClipType)(((v % 5) + 5) % 5); }
static inline FillRule fr_of(int64_t v) { return (FillRule)(((v % 4) + 4) % 4); }
static inline JoinType jt_of(int64_t v) { return (JoinType)(((v % 4) + 4) % 4); }
static inline EndType et_of(int64_t v) { return (EndType)(((v % 5) + 5) % 5); }

// ------------------------------------------------------------------ harness callbacks (seam S3): pure, no allocation; they throw
// only when a C12 plan injects it (fault kind 2), and then something that is not a std::exception
struct HarnessThrow {};
static inline uint64_t hmix(uint64_t a, uint64_t b) { a ^= b + 0x9E3779B97F4A7C15ull + (a << 6) + (a >> 2); return a * 0xD6E8FEB86659FD93ull; }
#ifdef USINGZ
static void zcb64(int kind, const Point64& a, const Point64& b, const Point64& c, const Point64& d, Point64& pt) {
  sim_yield_point(1);
  if (sim_cb_fault()) throw HarnessThrow();
  if (kind == 1) {
    uint64_t h = 7; h = hmix(h, (uint64_t)a.x); h = hmix(h, (uint64_t)a.y); h = hmix(h, (uint64_t)b.x); h = hmix(h, (uint64_t)b.y);
    h = hmix(h, (uint64_t)c.x); h = hmix(h, (uint64_t)c.y); h = hmix(h, (uint64_t)d.x); h = hmix(h, (uint64_t)d.y);
    h = hmix(h, (uint64_t)pt.x); h = hmix(h, (uint64_t)pt.y);
    pt.z = (int64_t)(h & 0xFFFFF) + 1;
  } else pt.z = (int64_t)(((uint64_t)a.z * 3u + (uint64_t)b.z * 5u + (uint64_t)c.z * 7u + (uint64_t)d.z * 11u + 1u) & 0xFFFFFFF);
}
static void zcbD(int kind, const PointD& a, const PointD& b, const PointD& c, const PointD& d, PointD& pt) {
  sim_yield_point(1);
  if (sim_cb_fault()) throw HarnessThrow();
  auto bits = [](double x) { uint64_t u; memcpy(&u, &x, 8); return u; };
  if (kind == 1) {
    uint64_t h = 9; h = hmix(h, bits(a.x)); h = hmix(h, bits(a.y)); h = hmix(h, bits(b.x)); h = hmix(h, bits(b.y));
    h = hmix(h, bits(c.x)); h = hmix(h, bits(c.y)); h = hmix(h, bits(d.x)); h = hmix(h, bits(d.y));
    h = hmix(h, bits(pt.x)); h = hmix(h, bits(pt.y));
    pt.z = (int64_t)(h & 0xFFFFF) + 1;
  } else pt.z = (int64_t)(((uint64_t)a.z * 3u + (uint64_t)b.z * 5u + (uint64_t)c.z * 7u + (uint64_t)d.z * 11u + 1u) & 0xFFFFFFF);
}
static ZCallback64 make_zcb64(int kind) {
  if (kind <= 0) return nullptr;
  return [kind](const Point64& a, const Point64& b, const Point64& c, const Point64& d, Point64& pt) { zcb64(kind, a, b, c, d, pt); };
}
static ZCallbackD make_zcbD(int kind) {
  if (kind <= 0) return nullptr;
  return [kind](const PointD& a, const PointD& b, const PointD& c, const PointD& d, PointD& pt) { zcbD(kind, a, b, c, d, pt); };
}
#endif
// delta callbacks never read path_normals for one-point paths (a fresh object passes an empty vector there)
static double dcb(int kind, double base, const Path64& path, size_t curr) {
  sim_yield_point(2);
  if (sim_cb_fault()) throw HarnessThrow();
  switch (kind) {
    case 1: return base;
    case 2: return base * (double)(1 + (curr % 3)) / 3.0;
    case 4: return (curr % 2) ? base : 0.0;                    // no offset at every other vertex
    case 5: { uint64_t h = hmix(13, (uint64_t)path[curr].x); h = hmix(h, (uint64_t)path[curr].y); return (h % 3 == 0) ? -base : base; }   // sign changes along the path
    case 6: return base * 1e-13;                               // below the library's own floating-point tolerance
    default: {
      uint64_t h = hmix(11, (uint64_t)path[curr].x); h = hmix(h, (uint64_t)path[curr].y);
      return base * (0.25 + (double)(h % 1000) / 1333.0);
    }
  }
}
static DeltaCallback64 make_dcb(int kind, double base) {
  if (kind <= 0) return nullptr;
  return [kind, base](const Path64& path, const PathD&, size_t curr, size_t) { return dcb(kind, base, path, curr); };
}

// ------------------------------------------------------------------ objects and their logical models
enum ObjType { T_NONE = 0, T_C64, T_CD, T_OFF, T_RC, T_RCL, T_CONT };

struct Batch { int kind = 0; Paths64 p; PathsD pd; bool raw64 = false; };  // kind: 0 subject, 1 open subject, 2 clip; raw64: integer paths that came through a container
struct OffGroup { Paths64 paths; int jt = 0, et = 0; bool single = false; };

struct Obj {
  ObjType type = T_NONE;
  Clipper64* c64 = nullptr; ClipperD* cd = nullptr; ClipperOffset* off = nullptr;
  RectClip64* rc = nullptr; RectClipLines64* rcl = nullptr; ReuseableDataContainer64* cont = nullptr;
  // ---- logical state (reference model)
  std::vector<Batch> batches;          // clipper / container
  bool pc = true, rs = false; int zkind = 0; int64_t defz = 0; int prec = 2;
  std::vector<OffGroup> groups; double miter = 2.0, arc = 0.0; int dcb_kind = 0; double dcb_base = 0;
  Rect64 rect;
  std::vector<int> using_conts;        // clipper: container slots added since last Clear
  int users = 0;                       // container: live clippers that added it since their last Clear
  // ---- history bookkeeping for the distinct-nontrivial measure
  int n_exec = 0, n_clear = 0, n_add = 0, n_opt = 0, n_reuse = 0;
  bool dup_reuse = false;              // the same container was added twice since the last Clear
  std::string hist;                    // one letter per operation applied to this object (distinct-history measure)
  int sticky_err = 0;                  // error flags raised by rejected input so far (ErrorCode() is documented as cumulative)
  bool poisoned = false;               // C12 fault histories: an exception escaped from an operation on this object; only Clear() / destruction may follow
};

} // namespace

struct WorkShared { Obj shared[8]; };

namespace {

struct Ctx {
  const Plan& plan; int task; Obj* slots; WorkShared* sh; TaskOut& out; int model;
  Obj* get(int s) {
    if (s >= 100 && s < 108) return sh ? &sh->shared[s - 100] : nullptr;
    if (s >= 0 && s < 16) return &slots[s];
    return nullptr;
  }
};

static void destroy_obj(Obj& o, int opidx) {
  if (o.type == T_NONE) return;
  Scope sc(opidx);
  delete o.c64; delete o.cd; delete o.off; delete o.rc; delete o.rcl; delete o.cont;
  o.c64 = nullptr; o.cd = nullptr; o.off = nullptr; o.rc = nullptr; o.rcl = nullptr; o.cont = nullptr;
  o.type = T_NONE; o.poisoned = false;
}

static void release_conts(Ctx& c, Obj& o) {
  for (int s : o.using_conts) { if (s >= 100) continue; Obj* k = c.get(s); if (k && k->type == T_CONT && k->users > 0) --k->users; }
  o.using_conts.clear();
}

// ------------------------------------------------------------------ reference model (C12): fresh objects from logical state
struct ClipOut64 { bool ret = false; int err = 0; Paths64 closed, open; PolyTree64 tree; };
struct ClipOutD { bool ret = false; int err = 0; PathsD closed, open; PolyTreeD tree; };

template <typename CL> static void apply_opts(CL& cl, const Obj& m) {
  cl.PreserveCollinear(m.pc); cl.ReverseSolution(m.rs);
#ifdef USINGZ
  cl.DefaultZ = m.defz;
#endif
}
static void ref_exec64(const Obj& m, ClipType ct, FillRule fr, int outmode, ClipOut64& r) {
  Clipper64 cl; apply_opts(cl, m);
#ifdef USINGZ
  cl.SetZCallback(make_zcb64(m.zkind));
#endif
  for (const Batch& b : m.batches) { if (b.kind == 0) cl.AddSubject(b.p); else if (b.kind == 1) cl.AddOpenSubject(b.p); else cl.AddClip(b.p); }
  switch (outmode) {
    case 0: r.ret = cl.Execute(ct, fr, r.closed); break;
    case 1: r.ret = cl.Execute(ct, fr, r.closed, r.open); break;
    case 2: r.ret = cl.Execute(ct, fr, r.tree); break;
    default: r.ret = cl.Execute(ct, fr, r.tree, r.open); break;
  }
  r.err = cl.ErrorCode();
}
static void ref_execD(const Obj& m, ClipType ct, FillRule fr, int outmode, ClipOutD& r) {
  ClipperD cl(m.prec); apply_opts(cl, m);
#ifdef USINGZ
  cl.SetZCallback(make_zcbD(m.zkind));
#endif
  // integer batches that reached the used object through a container reach the fresh one through fresh containers
  std::vector<std::unique_ptr<ReuseableDataContainer64>> conts;
  for (const Batch& b : m.batches) {
    if (b.raw64) { conts.emplace_back(new ReuseableDataContainer64()); conts.back()->AddPaths(b.p, b.kind == 2 ? PathType::Clip : PathType::Subject, b.kind == 1); cl.AddReuseableData(*conts.back()); }
    else if (b.kind == 0) cl.AddSubject(b.pd); else if (b.kind == 1) cl.AddOpenSubject(b.pd); else cl.AddClip(b.pd);
  }
  switch (outmode) {
    case 0: r.ret = cl.Execute(ct, fr, r.closed); break;
    case 1: r.ret = cl.Execute(ct, fr, r.closed, r.open); break;
    case 2: r.ret = cl.Execute(ct, fr, r.tree); break;
    default: r.ret = cl.Execute(ct, fr, r.tree, r.open); break;
  }
  r.err = cl.ErrorCode();
}
static void setup_off(ClipperOffset& f, const Obj& m) {
  f.MiterLimit(m.miter); f.ArcTolerance(m.arc); f.PreserveCollinear(m.pc); f.ReverseSolution(m.rs);
  if (m.dcb_kind > 0) f.SetDeltaCallback(make_dcb(m.dcb_kind, m.dcb_base));
#ifdef USINGZ
  f.SetZCallback(make_zcb64(m.zkind));
#endif
}

template <typename T> static uint64_t hash_out(bool ret, int err, const Paths<T>& closed, const Paths<T>& open, int outmode,
                                               const std::conditional_t<std::is_same<T, int64_t>::value, PolyTree64, PolyTreeD>& tree) {
  H h; h.u(ret); h.i(err); h.u(outmode);
  if (outmode < 2) h.paths(closed); else h.tree(tree);
  h.paths(open);
  return h.h;
}
template <typename T, typename TR> static std::string dump_out(bool ret, int err, const Paths<T>& closed, const Paths<T>& open, int outmode, const TR& tree) {
  std::string s = "ret=" + std::to_string(ret) + " err=" + std::to_string(err);
  if (outmode < 2) s += " closed=" + dump_paths(closed); else { s += " tree="; dump_tree(s, tree, 0); }
  s += " open=" + dump_paths(open);
  return s;
}

static std::string hist_shape(const char* cls, const Obj& o, const char* execkind) {
  // (object class, the last up-to-8 operations applied to the object before this Execute, kind of compared Execute)
  std::string h = o.hist.size() > 8 ? o.hist.substr(o.hist.size() - 8) : o.hist;
  return std::string(cls) + "|" + h + "|" + execkind;
}

// canonical cyclic form of a closed path: rotate so that the smallest (x,y[,z]) vertex comes first; direction kept
static Path64 canon_cycle(const Path64& p) {
  if (p.empty()) return p;
  size_t best = 0;
  auto less = [](const Point64& a, const Point64& b) {
    if (a.x != b.x) return a.x < b.x; if (a.y != b.y) return a.y < b.y;
#ifdef USINGZ
    return a.z < b.z;
#else
    return false;
#endif
  };
  auto eq = [&](const Point64& a, const Point64& b) { return !less(a, b) && !less(b, a); };
  size_t n = p.size();
  for (size_t s = 1; s < n; ++s) {
    // compare rotation s with rotation best lexicographically
    bool better = false;
    for (size_t k = 0; k < n; ++k) {
      const Point64& a = p[(s + k) % n]; const Point64& b = p[(best + k) % n];
      if (eq(a, b)) continue;
      better = less(a, b); break;
    }
    if (better) best = s;
  }
  Path64 r; r.reserve(n);
  for (size_t k = 0; k < n; ++k) r.push_back(p[(best + k) % n]);
  return r;
}
static bool path_less(const Path64& a, const Path64& b) {
  size_t n = std::min(a.size(), b.size());
  for (size_t k = 0; k < n; ++k) {
    if (a[k].x != b[k].x) return a[k].x < b[k].x;
    if (a[k].y != b[k].y) return a[k].y < b[k].y;
#ifdef USINGZ
    if (a[k].z != b[k].z) return a[k].z < b[k].z;
#endif
  }
  return a.size() < b.size();
}
static bool path_eq(const Path64& a, const Path64& b) { return !path_less(a, b) && !path_less(b, a); }
static Paths64 canon_multiset(const Paths64& pp) {
  Paths64 r; r.reserve(pp.size());
  for (const Path64& p : pp) r.push_back(canon_cycle(p));
  std::sort(r.begin(), r.end(), path_less);
  return r;
}

// ------------------------------------------------------------------ op handlers
typedef void (*Handler)(Ctx&, const Op&, int, OpResult&);
#define SKIP(r) do { (r).outcome = 4; return; } while (0)

static void h_new_c64(Ctx& c, const Op& op, int idx, OpResult& r) {
  Obj* o = c.get(op.o); if (!o || o->type != T_NONE) SKIP(r);
  *o = Obj();
  { Scope sc(idx); o->c64 = new Clipper64(); }
  o->type = T_C64;
}
static void h_new_cd(Ctx& c, const Op& op, int idx, OpResult& r) {
  Obj* o = c.get(op.o); if (!o || o->type != T_NONE) SKIP(r);
  int prec = (int)ai(op, 0, 2); if (prec < -8) prec = -8; if (prec > 8) prec = 8;
  *o = Obj(); o->prec = prec;
  { Scope sc(idx); o->cd = new ClipperD(prec); }
  o->type = T_CD;
}
static void h_new_off(Ctx& c, const Op& op, int idx, OpResult& r) {
  Obj* o = c.get(op.o); if (!o || o->type != T_NONE) SKIP(r);
  *o = Obj(); o->miter = ad(op, 0, 2.0); o->arc = ad(op, 1, 0.0); o->pc = ai(op, 0, 0) != 0; o->rs = ai(op, 1, 0) != 0;
  { Scope sc(idx); o->off = new ClipperOffset(o->miter, o->arc, o->pc, o->rs); }
  o->type = T_OFF;
}
// copy construction (i[0] == 0, destination slot empty) or copy assignment (i[0] == 1, destination of the same type) of the
// copyable library objects: ClipperOffset, RectClip64, RectClipLines64. The copy carries the logical state of its source.
// (defined in workcopy_off.cpp / workcopy_rc.cpp, which build.py may have to compile as stubs: nullptr / false = not copyable)
}   // (leave the anonymous namespace: these have external linkage in namespace sim)
Clipper2Lib::ClipperOffset* sim_clone_off(const Clipper2Lib::ClipperOffset&);
bool sim_assign_off(Clipper2Lib::ClipperOffset&, const Clipper2Lib::ClipperOffset&);
Clipper2Lib::RectClip64* sim_clone_rc(const Clipper2Lib::RectClip64&);
Clipper2Lib::RectClipLines64* sim_clone_rcl(const Clipper2Lib::RectClipLines64&);
namespace {
static void h_copy(Ctx& c, const Op& op, int idx, OpResult& r) {
  Obj* s = c.get(op.o); Obj* d = c.get(op.o2);
  if (!s || !d || s == d || op.o >= 100 || op.o2 >= 100 || s->poisoned) SKIP(r);
  if (s->type != T_OFF && s->type != T_RC && s->type != T_RCL) SKIP(r);
  bool assign = ai(op, 0) == 1 && s->type == T_OFF;      // the rectangle clippers have const members: copy construction only
  if (assign ? (d->type != s->type || d->poisoned) : (d->type != T_NONE)) SKIP(r);
  if (assign) {
    bool done; { Scope sc(idx); done = sim_assign_off(*d->off, *s->off); }
    if (!done) SKIP(r);
    ClipperOffset* po = d->off; RectClip64* pr = d->rc; RectClipLines64* pl = d->rcl; int ne = d->n_exec, nc = d->n_clear;
    *d = *s; d->off = po; d->rc = pr; d->rcl = pl; d->n_exec += ne; d->n_clear += nc; d->hist += 'k';
    return;
  }
  Obj n = *s; n.off = nullptr; n.rc = nullptr; n.rcl = nullptr;
  { Scope sc(idx); if (s->type == T_OFF) n.off = sim_clone_off(*s->off); else if (s->type == T_RC) n.rc = sim_clone_rc(*s->rc); else n.rcl = sim_clone_rcl(*s->rcl); }
  if (!n.off && !n.rc && !n.rcl) SKIP(r);
  n.hist += 'k';
  *d = n;
}
static Rect64 rect_of(const Op& op) { return Rect64(ai(op, 0), ai(op, 1), ai(op, 2), ai(op, 3)); }
static void h_new_rc(Ctx& c, const Op& op, int idx, OpResult& r) {
  Obj* o = c.get(op.o); if (!o || o->type != T_NONE) SKIP(r);
  *o = Obj(); o->rect = rect_of(op);
  { Scope sc(idx); o->rc = new RectClip64(o->rect); }
  o->type = T_RC;
}
static void h_new_rcl(Ctx& c, const Op& op, int idx, OpResult& r) {
  Obj* o = c.get(op.o); if (!o || o->type != T_NONE) SKIP(r);
  *o = Obj(); o->rect = rect_of(op);
  { Scope sc(idx); o->rcl = new RectClipLines64(o->rect); }
  o->type = T_RCL;
}
static void h_new_cont(Ctx& c, const Op& op, int idx, OpResult& r) {
  Obj* o = c.get(op.o); if (!o || o->type != T_NONE) SKIP(r);
  *o = Obj();
  { Scope sc(idx); o->cont = new ReuseableDataContainer64(); }
  o->type = T_CONT;
}
static void h_del(Ctx& c, const Op& op, int idx, OpResult& r) {
  Obj* o = c.get(op.o); if (!o || o->type == T_NONE) SKIP(r);
  if (op.o == 100 && c.task != -1) SKIP(r);                   // the shared container belongs to the set-up thread (slots 101..107: objects the set-up thread prepared and handed over to exactly one task)
  if (o->type == T_CONT && o->users > 0) SKIP(r);           // API contract: the container owns the vertices
  if (o->type == T_C64 || o->type == T_CD) release_conts(c, *o);
  destroy_obj(*o, idx);
}

static void h_c_add(Ctx& c, const Op& op, int idx, OpResult& r) {
  Obj* o = c.get(op.o); if (!o) SKIP(r);
  int kind = (int)(((ai(op, 0) % 3) + 3) % 3);
  if (o->type == T_C64 && op.hasP[0]) {
    Batch b; b.kind = kind; b.p = to64(op.P[0]);
    { Scope sc(idx); if (kind == 0) o->c64->AddSubject(b.p); else if (kind == 1) o->c64->AddOpenSubject(b.p); else o->c64->AddClip(b.p); }
    o->batches.push_back(std::move(b)); { ++o->n_add; o->hist += 'a'; }
  } else if (o->type == T_CD && op.hasD[0]) {
    Batch b; b.kind = kind; b.pd = toD(op.D[0]);
    try { Scope sc(idx); if (kind == 0) o->cd->AddSubject(b.pd); else if (kind == 1) o->cd->AddOpenSubject(b.pd); else o->cd->AddClip(b.pd); }
    catch (const Clipper2Exception&) { o->sticky_err |= o->cd->ErrorCode(); throw; }   // rejected input: nothing was added, the error flag stays
    o->batches.push_back(std::move(b)); { ++o->n_add; o->hist += 'a'; }
  } else SKIP(r);
}
static void h_c_reuse(Ctx& c, const Op& op, int idx, OpResult& r) {
  Obj* o = c.get(op.o); Obj* k = c.get(op.o2);
  if (!o || !k || (o->type != T_C64 && o->type != T_CD) || k->type != T_CONT) SKIP(r);
  // Adding the same container twice to one clipper is not forbidden by the API; plans do it only when asked to
  // (i[0] == 1), because on the current tree the next Execute does not terminate (known finding C10-F9)
  bool dup = false; for (int s : o->using_conts) if (s == op.o2) dup = true;
  if (dup && ai(op, 0) != 1) SKIP(r);
  if (dup) o->dup_reuse = true;
  if (o->type == T_C64) { Scope sc(idx); o->c64->AddReuseableData(*k->cont); }
  else { Scope sc(idx); o->cd->AddReuseableData(*k->cont); }  // integer vertices are taken as they are (no scaling)
  for (const Batch& b : k->batches) { o->batches.push_back(b); o->batches.back().raw64 = true; } // snapshot of the container's content at this moment
  if (!dup) { o->using_conts.push_back(op.o2); if (op.o2 < 100) ++k->users; } { ++o->n_reuse; o->hist += 'r'; }   // shared (set-up) containers are read-only for tasks, also in the model
}
static void h_c_pc(Ctx& c, const Op& op, int idx, OpResult& r) {
  Obj* o = c.get(op.o); if (!o) SKIP(r);
  bool v = ai(op, 0) != 0;
  if (o->type == T_C64) { Scope sc(idx); o->c64->PreserveCollinear(v); }
  else if (o->type == T_CD) { Scope sc(idx); o->cd->PreserveCollinear(v); }
  else if (o->type == T_OFF) { Scope sc(idx); o->off->PreserveCollinear(v); }
  else SKIP(r);
  o->pc = v; { ++o->n_opt; o->hist += 'o'; }
}
static void h_c_rs(Ctx& c, const Op& op, int idx, OpResult& r) {
  Obj* o = c.get(op.o); if (!o) SKIP(r);
  bool v = ai(op, 0) != 0;
  if (o->type == T_C64) { Scope sc(idx); o->c64->ReverseSolution(v); }
  else if (o->type == T_CD) { Scope sc(idx); o->cd->ReverseSolution(v); }
  else if (o->type == T_OFF) { Scope sc(idx); o->off->ReverseSolution(v); }
  else SKIP(r);
  o->rs = v; { ++o->n_opt; o->hist += 'o'; }
}
static void h_c_setz(Ctx& c, const Op& op, int idx, OpResult& r) {
#ifdef USINGZ
  Obj* o = c.get(op.o); if (!o) SKIP(r);
  int kind = (int)(((ai(op, 0) % 3) + 3) % 3);
  if (o->type == T_C64) { auto cb = make_zcb64(kind); Scope sc(idx); o->c64->SetZCallback(cb); }
  else if (o->type == T_CD) { auto cb = make_zcbD(kind); Scope sc(idx); o->cd->SetZCallback(cb); }
  else if (o->type == T_OFF) { auto cb = make_zcb64(kind); Scope sc(idx); o->off->SetZCallback(cb); }
  else SKIP(r);
  o->zkind = kind; { ++o->n_opt; o->hist += 'o'; }
#else
  (void)c; (void)op; (void)idx; SKIP(r);
#endif
}
static void h_c_defz(Ctx& c, const Op& op, int idx, OpResult& r) {
#ifdef USINGZ
  Obj* o = c.get(op.o); if (!o) SKIP(r);
  (void)idx;
  if (o->type == T_C64) o->c64->DefaultZ = ai(op, 0);
  else if (o->type == T_CD) o->cd->DefaultZ = ai(op, 0);
  else SKIP(r);
  o->defz = ai(op, 0); { ++o->n_opt; o->hist += 'o'; }
#else
  (void)c; (void)op; (void)idx; SKIP(r);
#endif
}
static void h_c_clear(Ctx& c, const Op& op, int idx, OpResult& r) {
  Obj* o = c.get(op.o); if (!o) SKIP(r);
  if (op.o == 100 && c.task != -1) SKIP(r);
  if (o->type == T_C64) { Scope sc(idx); o->c64->Clear(); }
  else if (o->type == T_CD) { Scope sc(idx); o->cd->Clear(); }
  else if (o->type == T_OFF) { { Scope sc(idx); o->off->Clear(); } o->groups.clear(); o->poisoned = false; { ++o->n_clear; o->hist += 'C'; } return; }
  else if (o->type == T_CONT) {
    if (o->users > 0) SKIP(r);                               // still in use by a clipper
    { Scope sc(idx); o->cont->Clear(); }
    o->batches.clear(); o->poisoned = false; { ++o->n_clear; o->hist += 'C'; } return;
  }
  else SKIP(r);
  o->batches.clear(); release_conts(c, *o); o->dup_reuse = false; o->poisoned = false; { ++o->n_clear; o->hist += 'C'; }
}

static void fill_junk(Paths64& p) { p.push_back(Path64{Point64(1, 2), Point64(3, 4), Point64(5, 6)}); p.push_back(Path64()); }
static void fill_junk(PathsD& p) { p.push_back(PathD{PointD(1.5, 2.5), PointD(3.5, 4.5), PointD(5.5, 6.5)}); p.push_back(PathD()); }

static void h_c_exec(Ctx& c, const Op& op, int idx, OpResult& r) {
  Obj* o = c.get(op.o); if (!o) SKIP(r);
  ClipType ct = ct_of(ai(op, 0)); FillRule fr = fr_of(ai(op, 1));
  int outmode = (int)(((ai(op, 2) % 4) + 4) % 4); bool junk = ai(op, 3) != 0;
  bool used = o->n_exec > 0 || o->n_clear > 0 || o->n_reuse > 0;
  if (o->dup_reuse) { sim_status_flag(1); sim_limit_op_budget(3000000); }
  if (o->type == T_C64) {
    std::unique_ptr<ClipOut64> a_holder(new ClipOut64()); ClipOut64& a = *a_holder;
    if (junk) { fill_junk(a.closed); fill_junk(a.open); a.tree.AddChild(Path64{Point64(9, 9), Point64(8, 8), Point64(7, 1)}); }
    {
      Scope sc(idx);
      switch (outmode) {
        case 0: a.ret = o->c64->Execute(ct, fr, a.closed); break;
        case 1: a.ret = o->c64->Execute(ct, fr, a.closed, a.open); break;
        case 2: a.ret = o->c64->Execute(ct, fr, a.tree); break;
        default: a.ret = o->c64->Execute(ct, fr, a.tree, a.open); break;
      }
      a.err = o->c64->ErrorCode();
    }
    if (outmode == 0 || outmode == 2) a.open.clear();          // not an output of these overloads
    r.digest = hash_out<int64_t>(a.ret, a.err, a.closed, a.open, outmode, a.tree);
    if (c.model) {
      ClipOut64 b; ref_exec64(*o, ct, fr, outmode, b);
      if (outmode == 0 || outmode == 2) b.open.clear();
      uint64_t hb = hash_out<int64_t>(b.ret, b.err, b.closed, b.open, outmode, b.tree);
      r.compared = true; r.nontrivial = used; r.shape = hist_shape("Clipper64", *o, outmode < 2 ? "paths" : "tree");
      if (hb != r.digest) {
        r.vclass = "history-clipper64";
        r.detail = "used object: " + dump_out(a.ret, a.err, a.closed, a.open, outmode, a.tree) + "\nfresh object: " + dump_out(b.ret, b.err, b.closed, b.open, outmode, b.tree);
        r.sig = r.shape;
      }
    }
    { ++o->n_exec; o->hist += 'x'; }
  } else if (o->type == T_CD) {
    std::unique_ptr<ClipOutD> a_holder(new ClipOutD()); ClipOutD& a = *a_holder;
    if (junk) { fill_junk(a.closed); fill_junk(a.open); a.tree.AddChild(PathD{PointD(9, 9), PointD(8, 8), PointD(7, 1)}); }
    {
      Scope sc(idx);
      switch (outmode) {
        case 0: a.ret = o->cd->Execute(ct, fr, a.closed); break;
        case 1: a.ret = o->cd->Execute(ct, fr, a.closed, a.open); break;
        case 2: a.ret = o->cd->Execute(ct, fr, a.tree); break;
        default: a.ret = o->cd->Execute(ct, fr, a.tree, a.open); break;
      }
      a.err = o->cd->ErrorCode();
    }
    if (outmode == 0 || outmode == 2) a.open.clear();
    r.digest = hash_out<double>(a.ret, a.err, a.closed, a.open, outmode, a.tree);
    if (c.model) {
      ClipOutD b; ref_execD(*o, ct, fr, outmode, b);
      // ErrorCode() after rejected input: the property does not say whether the flag of an earlier rejected batch is
      // still reported (cumulative, as today) or forgotten (e.g. reset by Clear()); both are accepted. Everything
      // else - return value, paths, tree - must equal the fresh object bit for bit.
      int fresh_err = b.err;
      if (a.err == (fresh_err | o->sticky_err)) b.err = a.err;
      if (outmode == 0 || outmode == 2) b.open.clear();
      uint64_t hb = hash_out<double>(b.ret, b.err, b.closed, b.open, outmode, b.tree);
      r.compared = true; r.nontrivial = used; r.shape = hist_shape("ClipperD", *o, outmode < 2 ? "paths" : "tree");
      if (hb != r.digest) {
        r.vclass = "history-clipperD";
        r.detail = "used object: " + dump_out(a.ret, a.err, a.closed, a.open, outmode, a.tree) + "\nfresh object: " + dump_out(b.ret, b.err, b.closed, b.open, outmode, b.tree);
        r.sig = r.shape;
      }
    }
    { ++o->n_exec; o->hist += 'x'; }
  } else SKIP(r);
}

// ---- container
static void h_k_add(Ctx& c, const Op& op, int idx, OpResult& r) {
  Obj* o = c.get(op.o); if (!o || o->type != T_CONT || !op.hasP[0]) SKIP(r);
  if (op.o == 100 && c.task != -1) SKIP(r);
  int type = (int)(ai(op, 0) & 1); bool open = ai(op, 1) != 0;
  if (type == 1 && open) open = false;                           // open clip paths are not part of the API
  Batch b; b.p = to64(op.P[0]); b.kind = type == 1 ? 2 : (open ? 1 : 0);
  { Scope sc(idx); o->cont->AddPaths(b.p, type == 1 ? PathType::Clip : PathType::Subject, open); }
  o->batches.push_back(std::move(b)); { ++o->n_add; o->hist += 'a'; }
}

// ---- offset
static void h_f_addpath(Ctx& c, const Op& op, int idx, OpResult& r) {
  Obj* o = c.get(op.o); if (!o || o->type != T_OFF || !op.hasP[0] || op.P[0].empty()) SKIP(r);
  OffGroup g; g.jt = (int)jt_of(ai(op, 0)); g.et = (int)et_of(ai(op, 1)); g.single = true; g.paths.push_back(to64(op.P[0][0]));
  { Scope sc(idx); o->off->AddPath(g.paths[0], (JoinType)g.jt, (EndType)g.et); }
  o->groups.push_back(std::move(g)); { ++o->n_add; o->hist += 'a'; }
}
static void h_f_addpaths(Ctx& c, const Op& op, int idx, OpResult& r) {
  Obj* o = c.get(op.o); if (!o || o->type != T_OFF || !op.hasP[0]) SKIP(r);
  OffGroup g; g.jt = (int)jt_of(ai(op, 0)); g.et = (int)et_of(ai(op, 1)); g.paths = to64(op.P[0]);
  { Scope sc(idx); o->off->AddPaths(g.paths, (JoinType)g.jt, (EndType)g.et); }
  if (!g.paths.empty()) o->groups.push_back(std::move(g));       // AddPaths of an empty list adds no group
  { ++o->n_add; o->hist += 'a'; }
}
static void h_f_miter(Ctx& c, const Op& op, int idx, OpResult& r) {
  Obj* o = c.get(op.o); if (!o || o->type != T_OFF) SKIP(r);
  { Scope sc(idx); o->off->MiterLimit(ad(op, 0, 2.0)); } o->miter = ad(op, 0, 2.0); { ++o->n_opt; o->hist += 'o'; }
}
static void h_f_arc(Ctx& c, const Op& op, int idx, OpResult& r) {
  Obj* o = c.get(op.o); if (!o || o->type != T_OFF) SKIP(r);
  { Scope sc(idx); o->off->ArcTolerance(ad(op, 0, 0.0)); } o->arc = ad(op, 0, 0.0); { ++o->n_opt; o->hist += 'o'; }
}
static void h_f_setdcb(Ctx& c, const Op& op, int idx, OpResult& r) {
  Obj* o = c.get(op.o); if (!o || o->type != T_OFF) SKIP(r);
  int kind = (int)(((ai(op, 0) % 7) + 7) % 7); double base = ad(op, 0, 5.0);
  { auto cb = make_dcb(kind, base); Scope sc(idx); o->off->SetDeltaCallback(cb); }
  o->dcb_kind = kind; o->dcb_base = base; { ++o->n_opt; o->hist += 'o'; }
}

struct OffOut { int err = 0; Paths64 sol; PolyTree64 tree; };
static uint64_t hash_off(const OffOut& a, int outmode) { H h; h.i(a.err); h.u(outmode); if (outmode == 0) h.paths(a.sol); else h.tree(a.tree); return h.h; }
static std::string dump_off(const OffOut& a, int outmode) {
  std::string s = "err=" + std::to_string(a.err);
  if (outmode == 0) s += " sol=" + dump_paths(a.sol); else { s += " tree="; dump_tree(s, a.tree, 0); }
  return s;
}
static void ref_off(const Obj& m, double delta, int outmode, OffOut& b) {
  ClipperOffset f; setup_off(f, m);
  for (const OffGroup& g : m.groups) { if (g.single) f.AddPath(g.paths[0], (JoinType)g.jt, (EndType)g.et); else f.AddPaths(g.paths, (JoinType)g.jt, (EndType)g.et); }
  if (outmode == 0) f.Execute(delta, b.sol); else f.Execute(delta, b.tree);
  b.err = f.ErrorCode();
}

// "Too far apart to interact": every input path's bounding box, inflated by the farthest any offset vertex can
// lie from the path, is disjoint from every other in BOTH the x- and the y-projection (so neither the offset
// shapes nor their scanbeams overlap). Also the documented orientation conventions must hold (see DESIGN 3.2.3).
static bool alone_precondition(const Obj& m, double delta, std::string& why) {
  double maxd = std::fabs(delta);
  if (m.dcb_kind > 0) maxd = std::fabs(m.dcb_base) * 1.01 + 1;
  double reach = maxd * std::max(m.miter, 2.0) + 4;
  struct B { double l, t, r, b; };
  std::vector<B> boxes;
  int sign = -1;
  for (const OffGroup& g : m.groups)
    for (const Path64& p : g.paths) {
      if ((EndType)g.et == EndType::Polygon) {
        int s = Area(p) < 0 ? 1 : 0;
        if (sign < 0) sign = s; else if (sign != s) { why = "mixed orientation in Polygon groups"; return false; }
      }
      if (p.empty()) continue;
      Rect64 rc = GetBounds(p);
      boxes.push_back(B{(double)rc.left - reach, (double)rc.top - reach, (double)rc.right + reach, (double)rc.bottom + reach});
    }
  for (size_t i = 0; i < boxes.size(); ++i)
    for (size_t j = i + 1; j < boxes.size(); ++j) {
      bool xsep = boxes[i].r < boxes[j].l || boxes[j].r < boxes[i].l;
      bool ysep = boxes[i].b < boxes[j].t || boxes[j].b < boxes[i].t;
      if (!(xsep && ysep)) { why = "paths not far apart"; return false; }
    }
  return true;
}
static const char* et_name(int et) { static const char* const n[] = {"Polygon", "Joined", "Butt", "Square", "Round"}; return n[et]; }
static const char* jt_name(int jt) { static const char* const n[] = {"Square", "Bevel", "Round", "Miter"}; return n[jt]; }
static int lencls(size_t n) { return n > 3 ? 3 : (int)n; }

// Is every discrepancy between the combined result and the union of the alone results attributable to open-path
// groups only? (a) every alone result of a Polygon-group path is present in the combined result, and (b) every
// combined path that is not such a result lies inside the inflated bounding box of an open-path group's input path.
static bool discrepancy_confined_to_open_groups(const Obj& m, double delta, const Paths64& ca /*canonical combined*/,
                                                const std::vector<Paths64>& per_path, const std::vector<std::pair<int, int>>& ids) {
  Paths64 poly;
  for (size_t q = 0; q < per_path.size(); ++q) if ((EndType)m.groups[(size_t)ids[q].first].et == EndType::Polygon) for (const Path64& p : per_path[q]) poly.push_back(p);
  Paths64 cp = canon_multiset(poly);
  std::vector<bool> used(ca.size(), false);
  for (const Path64& p : cp) { bool f = false; for (size_t k = 0; k < ca.size(); ++k) if (!used[k] && path_eq(p, ca[k])) { used[k] = true; f = true; break; } if (!f) return false; }
  double maxd = m.dcb_kind > 0 ? std::fabs(m.dcb_base) * 1.01 + 1 : std::fabs(delta);
  double reach = maxd * std::max(m.miter, 2.0) + 4;
  for (size_t k = 0; k < ca.size(); ++k) {
    if (used[k] || ca[k].empty()) continue;
    Rect64 b = GetBounds(ca[k]); bool inside = false;
    for (const OffGroup& g : m.groups) {
      if ((EndType)g.et == EndType::Polygon) continue;
      for (const Path64& p : g.paths) { if (p.empty()) continue; Rect64 ib = GetBounds(p);
        if ((double)b.left >= (double)ib.left - reach && (double)b.right <= (double)ib.right + reach && (double)b.top >= (double)ib.top - reach && (double)b.bottom <= (double)ib.bottom + reach) inside = true; }
    }
    if (!inside) return false;
  }
  return true;
}

static void alone_check(const Obj& m, double delta, const Paths64& combined, OpResult& r) {
  std::string why;
  if (!alone_precondition(m, delta, why)) return;
  Paths64 expect;
  std::vector<Paths64> per_path; std::vector<std::pair<int, int>> ids;
  for (size_t gi = 0; gi < m.groups.size(); ++gi) {
    const OffGroup& g = m.groups[gi];
    for (size_t pi = 0; pi < g.paths.size(); ++pi) {
      ClipperOffset f; setup_off(f, m);
      f.AddPaths(Paths64{g.paths[pi]}, (JoinType)g.jt, (EndType)g.et);
      Paths64 sol; f.Execute(delta, sol);
      for (const Path64& p : sol) expect.push_back(p);
      per_path.push_back(std::move(sol)); ids.emplace_back((int)gi, (int)pi);
    }
  }
  r.compared = true;
  size_t npaths = ids.size();
  r.nontrivial = r.nontrivial || npaths >= 2;
  Paths64 ca = canon_multiset(combined), ce = canon_multiset(expect);
  bool same = ca.size() == ce.size();
  for (size_t k = 0; same && k < ca.size(); ++k) same = path_eq(ca[k], ce[k]);
  if (same) return;
  r.vclass = "offset-alone";
  // signature: first input path whose alone-result is not found in the combined result
  std::string sig = "none";
  for (size_t k = 0; k < per_path.size(); ++k) {
    Paths64 cp = canon_multiset(per_path[k]);
    bool found_all = true;
    for (const Path64& p : cp) { bool f = false; for (const Path64& q : ca) if (path_eq(p, q)) { f = true; break; } if (!f) { found_all = false; break; } }
    if (found_all) continue;
    const OffGroup& g = m.groups[ids[k].first];
    bool first_poly_reversed = false, has_poly = false, has_nonpoly = false, empty_poly_group_before = false, twopt_before_in_group = false, any_before = k > 0;
    for (size_t gi = 0; gi < m.groups.size(); ++gi) {
      const OffGroup& gg = m.groups[gi];
      if ((EndType)gg.et == EndType::Polygon) {
        if (!has_poly) { has_poly = true;
          // orientation of the first polygon group = orientation of its lowest path; under the precondition all agree
          for (const Path64& p : gg.paths) if (Area(p) < 0) first_poly_reversed = true; }
        bool all_empty = true; for (const Path64& p : gg.paths) if (!p.empty()) all_empty = false;
        if (all_empty && (int)gi < ids[k].first) empty_poly_group_before = true;
      } else has_nonpoly = true;
    }
    for (int pi = 0; pi < ids[k].second; ++pi) {
      Path64 tmp = g.paths[pi]; StripDuplicates(tmp, true);
      if (tmp.size() == 2) twopt_before_in_group = true;
    }
    // does the combined result equal exactly the alone results of the Polygon-group paths (i.e. all and only the
    // results of open-path groups are missing)?
    bool only_open_missing = false;
    {
      Paths64 poly_only;
      for (size_t q = 0; q < per_path.size(); ++q) if ((EndType)m.groups[ids[q].first].et == EndType::Polygon) for (const Path64& p : per_path[q]) poly_only.push_back(p);
      Paths64 cp = canon_multiset(poly_only);
      only_open_missing = cp.size() == ca.size();
      for (size_t q = 0; only_open_missing && q < cp.size(); ++q) only_open_missing = path_eq(cp[q], ca[q]);
    }
    char b[500];
    snprintf(b, sizeof b, "et=%s jt=%s len=%d first_in_group=%d twopt_earlier_in_group=%d empty_polygon_group_earlier=%d reversed_polygon_group_in_call=%d group_is_polygon=%d only_open_group_results_missing=%d dcb=%d delta_sign=%d any_path_before=%d",
             et_name(g.et), jt_name(g.jt), lencls(g.paths[ids[k].second].size()), ids[k].second == 0, twopt_before_in_group, empty_poly_group_before,
             first_poly_reversed && has_nonpoly, (EndType)g.et == EndType::Polygon, only_open_missing, m.dcb_kind > 0 ? 1 : 0, delta < 0 ? -1 : 1, any_before);
    sig = std::string(b) + " discrepancy_confined_to_open_groups=" + (discrepancy_confined_to_open_groups(m, delta, ca, per_path, ids) ? "1" : "0");
    r.detail = "input path g" + std::to_string(ids[k].first) + "/p" + std::to_string(ids[k].second) + " = " + dump_paths(Paths64{g.paths[ids[k].second]}) +
               "\nalone result:    " + dump_paths(per_path[k]) + "\ncombined result: " + dump_paths(combined) + "\nexpected union of alone results: " + dump_paths(expect);
    break;
  }
  if (sig == "none") {
    bool empty_poly = false, reversed = false;
    for (const OffGroup& gg : m.groups) if ((EndType)gg.et == EndType::Polygon) { bool all_empty = true; for (const Path64& p : gg.paths) { if (!p.empty()) all_empty = false; if (Area(p) < 0) reversed = true; } if (all_empty) empty_poly = true; }
    bool has_nonpoly2 = false; for (const OffGroup& gg : m.groups) if ((EndType)gg.et != EndType::Polygon) has_nonpoly2 = true;
    sig = std::string("extra-paths-in-combined-result empty_polygon_group_in_call=") + (empty_poly ? "1" : "0") + " reversed_polygon_group_in_call=" + (reversed && has_nonpoly2 ? "1" : "0") + " dcb=" + (m.dcb_kind > 0 ? "1" : "0") +
          " discrepancy_confined_to_open_groups=" + (discrepancy_confined_to_open_groups(m, delta, ca, per_path, ids) ? "1" : "0");
    r.detail = "combined result has extra paths\ncombined: " + dump_paths(combined) + "\nexpected: " + dump_paths(expect);
  }
  r.sig = sig;
}

static void f_exec_common(Ctx& c, const Op& op, int idx, OpResult& r, Obj* o, double delta, int outmode, bool junk, bool alone, bool via_cb_overload) {
  std::unique_ptr<OffOut> a_holder(new OffOut()); OffOut& a = *a_holder;   // on the heap: a pointer the library keeps to it dangles visibly
  if (junk) { fill_junk(a.sol); a.tree.AddChild(Path64{Point64(9, 9), Point64(8, 8), Point64(7, 1)}); }
  bool used = o->n_exec > 0 || o->n_clear > 0;
  {
    DeltaCallback64 cb; if (via_cb_overload) cb = make_dcb(o->dcb_kind, o->dcb_base);
    Scope sc(idx);
    if (via_cb_overload) o->off->Execute(cb, a.sol);
    else if (outmode == 0) o->off->Execute(delta, a.sol);
    else o->off->Execute(delta, a.tree);
    a.err = o->off->ErrorCode();
  }
  r.digest = hash_off(a, outmode);
  if (c.model) {
    OffOut b; ref_off(*o, delta, outmode, b);
    r.compared = true; r.nontrivial = used; r.shape = hist_shape("ClipperOffset", *o, outmode == 0 ? "paths" : "tree");
    if (hash_off(b, outmode) != r.digest) {
      r.vclass = "history-offset";
      r.detail = "used object: " + dump_off(a, outmode) + "\nfresh object: " + dump_off(b, outmode);
      r.sig = r.shape;
    } else if (alone) {
      // the PolyTree overload must hold the same far-apart results (flattened) as the Paths overload
      if (outmode == 0) alone_check(*o, delta, a.sol, r); else alone_check(*o, delta, PolyTreeToPaths64(a.tree), r);
      if (r.compared) r.shape += "|alone";
    }
  }
  (void)op;
  { ++o->n_exec; o->hist += 'x'; }
}
static void h_f_exec(Ctx& c, const Op& op, int idx, OpResult& r) {
  Obj* o = c.get(op.o); if (!o || o->type != T_OFF) SKIP(r);
  f_exec_common(c, op, idx, r, o, ad(op, 0, 1.0), (int)(ai(op, 0) & 1), ai(op, 1) != 0, ai(op, 2) != 0, false);
}
static void h_f_execcb(Ctx& c, const Op& op, int idx, OpResult& r) {
  Obj* o = c.get(op.o); if (!o || o->type != T_OFF) SKIP(r);
  int kind = (int)(((ai(op, 0) % 6) + 6) % 6) + 1; double base = ad(op, 0, 5.0);
  // Execute(DeltaCallback64, Paths64&) is documented and implemented as SetDeltaCallback + Execute(1.0)
  o->dcb_kind = kind; o->dcb_base = base; { ++o->n_opt; o->hist += 'o'; }
  f_exec_common(c, op, idx, r, o, 1.0, 0, ai(op, 1) != 0, ai(op, 2) != 0, true);
}

// ---- rect clip objects
static void h_r_exec(Ctx& c, const Op& op, int idx, OpResult& r) {
  Obj* o = c.get(op.o); if (!o || (o->type != T_RC && o->type != T_RCL) || !op.hasP[0]) SKIP(r);
  Paths64 in = to64(op.P[0]), a;
  bool used = o->n_exec > 0;
  { Scope sc(idx); a = o->type == T_RC ? o->rc->Execute(in) : o->rcl->Execute(in); }
  H h; h.paths(a); r.digest = h.h;
  if (c.model) {
    Paths64 b, cat;
    if (o->type == T_RC) { RectClip64 f(o->rect); b = f.Execute(in); } else { RectClipLines64 f(o->rect); b = f.Execute(in); }
    for (const Path64& p : in) {
      Paths64 one;
      if (o->type == T_RC) { RectClip64 f(o->rect); one = f.Execute(Paths64{p}); } else { RectClipLines64 f(o->rect); one = f.Execute(Paths64{p}); }
      for (Path64& q : one) cat.push_back(std::move(q));
    }
    H hb; hb.paths(b); H hc; hc.paths(cat);
    r.compared = true; r.nontrivial = used || in.size() >= 2; r.shape = hist_shape(o->type == T_RC ? "RectClip64" : "RectClipLines64", *o, in.size() >= 2 ? "multi" : "single");
    if (hb.h != r.digest) { r.vclass = "history-rectclip"; r.detail = "used object: " + dump_paths(a) + "\nfresh object: " + dump_paths(b); r.sig = r.shape; }
    else if (hc.h != r.digest) { r.vclass = "rectclip-perpath"; r.detail = "whole call: " + dump_paths(a) + "\npath by path: " + dump_paths(cat); r.sig = r.shape; }
  }
  { ++o->n_exec; o->hist += 'x'; }
}

// ------------------------------------------------------------------ free functions (C10 / C14 workloads)
static int prec_of(const Op& op, size_t k) { int p = (int)ai(op, k, 2); return p; }

static void h_boolop64(Ctx&, const Op& op, int idx, OpResult& r) {
  Paths64 s = to64(op.P[0]), cl = to64(op.P[1]), out;
  { Scope sc(idx); out = BooleanOp(ct_of(ai(op, 0)), fr_of(ai(op, 1)), s, cl); }
  H h; h.paths(out); r.digest = h.h;
}
static void h_booltree64(Ctx&, const Op& op, int idx, OpResult& r) {
  Paths64 s = to64(op.P[0]), cl = to64(op.P[1]); PolyTree64 t; Paths64 flat; bool ok; double area; std::ostringstream os; os.exceptions(std::ios::badbit | std::ios::failbit);
  { Scope sc(idx); BooleanOp(ct_of(ai(op, 0)), fr_of(ai(op, 1)), s, cl, t); flat = PolyTreeToPaths64(t); ok = CheckPolytreeFullyContainsChildren(t); area = t.Area(); os << t; }
  H h; h.tree(t); h.paths(flat); h.u(ok); h.d(area); h.str(os.str()); r.digest = h.h;
}
static void h_boolopD(Ctx&, const Op& op, int idx, OpResult& r) {
  PathsD s = toD(op.D[0]), cl = toD(op.D[1]), out;
  { Scope sc(idx); out = BooleanOp(ct_of(ai(op, 0)), fr_of(ai(op, 1)), s, cl, prec_of(op, 2)); }
  H h; h.paths(out); r.digest = h.h;
}
static void h_booltreeD(Ctx&, const Op& op, int idx, OpResult& r) {
  PathsD s = toD(op.D[0]), cl = toD(op.D[1]); PolyTreeD t; PathsD flat; double area; std::ostringstream os; os.exceptions(std::ios::badbit | std::ios::failbit);
  { Scope sc(idx); BooleanOp(ct_of(ai(op, 0)), fr_of(ai(op, 1)), s, cl, t, prec_of(op, 2)); flat = PolyTreeToPathsD(t); area = t.Area(); os << t; }
  H h; h.tree(t); h.paths(flat); h.d(area); h.str(os.str()); r.digest = h.h;
}
static void h_named64(Ctx&, const Op& op, int idx, OpResult& r) {
  Paths64 s = to64(op.P[0]), cl = to64(op.P[1]), out; FillRule fr = fr_of(ai(op, 1));
  {
    Scope sc(idx);
    switch (ai(op, 0)) {
      case 0: out = Intersect(s, cl, fr); break;
      case 1: out = Union(s, cl, fr); break;
      case 2: out = Difference(s, cl, fr); break;
      case 3: out = Xor(s, cl, fr); break;
      default: out = Union(s, fr); break;
    }
  }
  H h; h.paths(out); r.digest = h.h;
}
static void h_namedD(Ctx&, const Op& op, int idx, OpResult& r) {
  PathsD s = toD(op.D[0]), cl = toD(op.D[1]), out; FillRule fr = fr_of(ai(op, 1)); int pr = prec_of(op, 2);
  {
    Scope sc(idx);
    switch (ai(op, 0)) {
      case 0: out = Intersect(s, cl, fr, pr); break;
      case 1: out = Union(s, cl, fr, pr); break;
      case 2: out = Difference(s, cl, fr, pr); break;
      case 3: out = Xor(s, cl, fr, pr); break;
      default: out = Union(s, fr, pr); break;
    }
  }
  H h; h.paths(out); r.digest = h.h;
}
static void h_inflate64(Ctx&, const Op& op, int idx, OpResult& r) {
  Paths64 s = to64(op.P[0]), out;
  { Scope sc(idx); out = InflatePaths(s, ad(op, 0, 1), jt_of(ai(op, 0)), et_of(ai(op, 1)), ad(op, 1, 2.0), ad(op, 2, 0.0)); }
  H h; h.paths(out); r.digest = h.h;
}
static void h_inflateD(Ctx&, const Op& op, int idx, OpResult& r) {
  PathsD s = toD(op.D[0]), out;
  { Scope sc(idx); out = InflatePaths(s, ad(op, 0, 1), jt_of(ai(op, 0)), et_of(ai(op, 1)), ad(op, 1, 2.0), prec_of(op, 2), ad(op, 2, 0.0)); }
  H h; h.paths(out); r.digest = h.h;
}
static void h_rectclip64(Ctx&, const Op& op, int idx, OpResult& r) {
  Paths64 s = to64(op.P[0]), out; Rect64 rc = rect_of(op); bool lines = ai(op, 4) != 0, single = ai(op, 5) != 0;
  {
    Scope sc(idx);
    if (single) { Path64 p = s.empty() ? Path64() : s[0]; out = lines ? RectClipLines(rc, p) : RectClip(rc, p); }
    else out = lines ? RectClipLines(rc, s) : RectClip(rc, s);
  }
  H h; h.paths(out); r.digest = h.h;
}
static void h_rectclipD(Ctx&, const Op& op, int idx, OpResult& r) {
  PathsD s = toD(op.D[0]), out; RectD rc(ad(op, 0), ad(op, 1), ad(op, 2), ad(op, 3)); bool lines = ai(op, 0) != 0, single = ai(op, 1) != 0; int pr = prec_of(op, 2);
  {
    Scope sc(idx);
    if (single) { PathD p = s.empty() ? PathD() : s[0]; out = lines ? RectClipLines(rc, p, pr) : RectClip(rc, p, pr); }
    else out = lines ? RectClipLines(rc, s, pr) : RectClip(rc, s, pr);
  }
  H h; h.paths(out); r.digest = h.h;
}
static void h_mink64(Ctx&, const Op& op, int idx, OpResult& r) {
  Paths64 s = to64(op.P[0]); Path64 pat = s.size() > 0 ? s[0] : Path64(), path = s.size() > 1 ? s[1] : Path64(); Paths64 out;
  { Scope sc(idx); out = ai(op, 0) ? MinkowskiDiff(pat, path, ai(op, 1) != 0) : MinkowskiSum(pat, path, ai(op, 1) != 0); }
  H h; h.paths(out); r.digest = h.h;
}
static void h_minkD(Ctx&, const Op& op, int idx, OpResult& r) {
  PathsD s = toD(op.D[0]); PathD pat = s.size() > 0 ? s[0] : PathD(), path = s.size() > 1 ? s[1] : PathD(); PathsD out;
  { Scope sc(idx); out = ai(op, 0) ? MinkowskiDiff(pat, path, ai(op, 1) != 0, prec_of(op, 2)) : MinkowskiSum(pat, path, ai(op, 1) != 0, prec_of(op, 2)); }
  H h; h.paths(out); r.digest = h.h;
}
static void h_utils64(Ctx&, const Op& op, int idx, OpResult& r) {
  Paths64 s = to64(op.P[0]); Path64 p0 = s.empty() ? Path64() : s[0];
  double eps = ad(op, 0, 1.0); bool flag = ai(op, 1) != 0;
  H h;
  {
    Scope sc(idx);
    switch (ai(op, 0)) {
      case 0: h.path(TrimCollinear(p0, flag)); break;
      case 1: h.path(SimplifyPath(p0, eps, flag)); break;
      case 2: h.paths(SimplifyPaths(s, eps, flag)); break;
      case 3: h.path(RamerDouglasPeucker(p0, eps)); break;
      case 4: h.paths(RamerDouglasPeucker(s, eps)); break;
      case 5: { Path64 q = p0; StripDuplicates(q, flag); h.path(q); Paths64 qq = s; StripDuplicates(qq, flag); h.paths(qq); break; }
      case 6: h.path(StripNearEqual(p0, eps, flag)); h.paths(StripNearEqual(s, eps, flag)); break;
      case 7: h.path(TranslatePath(p0, ai(op, 2), ai(op, 3))); h.paths(TranslatePaths(s, ai(op, 2), ai(op, 3))); break;
      case 8: { Rect64 rc = GetBounds(s); Rect64 r1 = GetBounds(p0); RectD rd = GetBounds<double, int64_t>(s); RectD rd1 = GetBounds<double, int64_t>(p0);
        h.i(rc.left); h.i(rc.top); h.i(rc.right); h.i(rc.bottom); h.i(r1.left); h.i(r1.bottom); h.d(rd.left); h.d(rd.bottom); h.d(rd1.right); h.d(rd1.top);
        h.d(Area(p0)); h.d(Area(s)); h.u(IsPositive(p0)); h.d(Length(p0, flag));
        Point64 q = s.size() > 1 && !s[1].empty() ? s[1][0] : Point64(ai(op, 2), ai(op, 3)); h.u((uint64_t)PointInPolygon(q, p0));
        // points on the boundary: every vertex, every edge midpoint, and the same shifted by one unit
        for (size_t k = 0; k < p0.size() && k < 24; ++k) { const Point64& a = p0[k]; const Point64& b = p0[(k + 1) % p0.size()]; Point64 m((a.x / 2 + b.x / 2), (a.y / 2 + b.y / 2));
          h.u((uint64_t)PointInPolygon(a, p0)); h.u((uint64_t)PointInPolygon(m, p0)); h.u((uint64_t)PointInPolygon(Point64(m.x + 1, m.y), p0)); h.u((uint64_t)PointInPolygon(Point64(a.x, a.y - 1), p0)); }
        break; }
      case 9: { std::ostringstream os; os.exceptions(std::ios::badbit | std::ios::failbit); os << s; os << p0; h.str(os.str()); break; }
      case 10: { Point64 ctr(ai(op, 2), ai(op, 3)); h.path(Ellipse(ctr, eps, ad(op, 1, 0), (size_t)ai(op, 4))); Rect64 rc(ai(op, 2), ai(op, 3), ai(op, 2) + (int64_t)eps, ai(op, 3) + (int64_t)ad(op, 1, 0)); h.path(Ellipse(rc, (size_t)ai(op, 4))); break; }
      default: { std::vector<int64_t> v; for (const Point64& q : p0) { v.push_back(q.x); v.push_back(q.y); } if (flag && !v.empty()) v.push_back(7); h.path(MakePath(v)); h.path(MakePathD(v)); break; }
    }
  }
  r.digest = h.h;
}
static void h_utilsD(Ctx&, const Op& op, int idx, OpResult& r) {
  PathsD s = toD(op.D[0]); PathD p0 = s.empty() ? PathD() : s[0];
  double eps = ad(op, 0, 1.0); bool flag = ai(op, 1) != 0; int pr = prec_of(op, 4);
  H h;
  {
    Scope sc(idx);
    switch (ai(op, 0)) {
      case 0: h.path(TrimCollinear(p0, pr, flag)); break;
      case 1: h.path(SimplifyPath(p0, eps, flag)); break;
      case 2: h.paths(SimplifyPaths(s, eps, flag)); break;
      case 3: h.path(RamerDouglasPeucker(p0, eps)); break;
      case 4: h.paths(RamerDouglasPeucker(s, eps)); break;
      case 5: { PathD q = p0; StripDuplicates(q, flag); h.path(q); break; }
      case 6: h.path(StripNearEqual(p0, eps, flag)); h.paths(StripNearEqual(s, eps, flag)); break;
      case 7: h.path(TranslatePath(p0, ad(op, 1), ad(op, 2))); h.paths(TranslatePaths(s, ad(op, 1), ad(op, 2))); break;
      case 8: { RectD rc = GetBounds(s); RectD r1 = GetBounds(p0); h.d(rc.left); h.d(rc.top); h.d(rc.right); h.d(rc.bottom); h.d(r1.left); h.d(r1.bottom);
        h.d(Area(p0)); h.d(Area(s)); h.u(IsPositive(p0)); h.d(Length(p0, flag));
        PointD q = s.size() > 1 && !s[1].empty() ? s[1][0] : PointD(ad(op, 1), ad(op, 2)); h.u((uint64_t)PointInPolygon(q, p0));
        for (size_t k = 0; k < p0.size() && k < 24; ++k) { const PointD& a = p0[k]; const PointD& b = p0[(k + 1) % p0.size()]; PointD m((a.x + b.x) / 2, (a.y + b.y) / 2);
          h.u((uint64_t)PointInPolygon(a, p0)); h.u((uint64_t)PointInPolygon(m, p0)); }
        break; }
      case 9: { std::ostringstream os; os.exceptions(std::ios::badbit | std::ios::failbit); os << s; os << p0; h.str(os.str()); break; }
      default: { PointD ctr(ad(op, 1), ad(op, 2)); h.path(Ellipse(ctr, eps, ad(op, 3, 0), (size_t)ai(op, 2))); break; }
    }
  }
  r.digest = h.h;
}

// ------------------------------------------------------------------ op table
static void hw_x_bool64(Ctx&, const Op& op, int idx, OpResult& r) { hx_x_bool64(op, idx, r); }
static void hw_x_boolD(Ctx&, const Op& op, int idx, OpResult& r) { hx_x_boolD(op, idx, r); }
static void hw_x_inflate64(Ctx&, const Op& op, int idx, OpResult& r) { hx_x_inflate64(op, idx, r); }
static void hw_x_inflateD(Ctx&, const Op& op, int idx, OpResult& r) { hx_x_inflateD(op, idx, r); }
static void hw_x_rect64(Ctx&, const Op& op, int idx, OpResult& r) { hx_x_rect64(op, idx, r); }
static void hw_x_rectD(Ctx&, const Op& op, int idx, OpResult& r) { hx_x_rectD(op, idx, r); }
static void hw_x_mink64(Ctx&, const Op& op, int idx, OpResult& r) { hx_x_mink64(op, idx, r); }
struct OpDef { const char* name; Handler fn; };
static const OpDef OPS[] = {
  {"new_c64", h_new_c64}, {"new_cd", h_new_cd}, {"new_off", h_new_off}, {"new_rc", h_new_rc}, {"new_rcl", h_new_rcl}, {"new_cont", h_new_cont}, {"del", h_del},
  {"c_add", h_c_add}, {"c_reuse", h_c_reuse}, {"pc", h_c_pc}, {"rs", h_c_rs}, {"setz", h_c_setz}, {"defz", h_c_defz}, {"clear", h_c_clear}, {"c_exec", h_c_exec},
  {"k_add", h_k_add},
  {"f_addpath", h_f_addpath}, {"f_addpaths", h_f_addpaths}, {"f_miter", h_f_miter}, {"f_arc", h_f_arc}, {"f_setdcb", h_f_setdcb}, {"f_exec", h_f_exec}, {"f_execcb", h_f_execcb}, {"copy", h_copy},
  {"r_exec", h_r_exec},
  {"boolop64", h_boolop64}, {"booltree64", h_booltree64}, {"boolopD", h_boolopD}, {"booltreeD", h_booltreeD}, {"named64", h_named64}, {"namedD", h_namedD},
  {"inflate64", h_inflate64}, {"inflateD", h_inflateD}, {"rectclip64", h_rectclip64}, {"rectclipD", h_rectclipD}, {"mink64", h_mink64}, {"minkD", h_minkD},
  {"utils64", h_utils64}, {"utilsD", h_utilsD},
  {"x_bool64", hw_x_bool64}, {"x_boolD", hw_x_boolD}, {"x_inflate64", hw_x_inflate64}, {"x_inflateD", hw_x_inflateD}, {"x_rect64", hw_x_rect64}, {"x_rectD", hw_x_rectD}, {"x_mink64", hw_x_mink64},
};
static const int NOPS = sizeof(OPS) / sizeof(OPS[0]);
static Handler find_op(const std::string& k) { for (int i = 0; i < NOPS; ++i) if (k == OPS[i].name) return OPS[i].fn; return nullptr; }

static void exec_one(Ctx& c, int idx, OpResult& r) {
  const Op& op = c.plan.ops[idx];
  r.op = idx;
  TaskCtx* t = sim_cur();
  t->op = -2;                                  // force a fresh per-op allocation index
  Handler fn = find_op(op.kind);
  if (!fn) { r.outcome = 4; return; }
  if (c.model & 2) {            // C12 fault histories: after an exception escaped, only Clear() and destruction are applied to the object
    Obj* po = c.get(op.o);
    if (po && po->poisoned && op.kind != "clear" && op.kind != "del") { r.outcome = 4; return; }
    if (op.kind == "c_reuse") { Obj* pk = c.get(op.o2); if (pk && pk->poisoned) { r.outcome = 4; return; } }
  }
  try { fn(c, op, idx, r); }
  catch (const std::bad_alloc&) { r.outcome = 1; }
  catch (const HarnessThrow&) { r.outcome = 5; }
  catch (const Clipper2Exception& e) { r.outcome = 2; H h; h.str(e.what()); r.digest = h.h; }
  catch (const std::exception& e) { r.outcome = 3; r.detail = e.what(); }
  catch (...) { r.outcome = 3; r.detail = "non-std exception"; }
  if (t->op == idx) { r.allocs = t->op_allocs; r.nt_allocs = t->op_nt_allocs; r.cbs = t->op_cbs; }
  if ((c.model & 2) && (r.outcome == 1 || r.outcome == 5)) {
    Obj* po = c.get(op.o);
    if (po) {
      po->poisoned = true;
      // error flags raised before the exception escaped stay part of what ErrorCode() may report (cumulative-or-reset, as for rejected input)
      if (po->type == T_CD && po->cd) po->sticky_err |= po->cd->ErrorCode();
      if (po->type == T_C64 && po->c64) po->sticky_err |= po->c64->ErrorCode();
      // AddReuseableData may have copied some minima already: the clipper counts as a user of the container until it is cleared
      if (op.kind == "c_reuse" && op.o2 < 100) { Obj* pk = c.get(op.o2); bool dup = false; for (int sl : po->using_conts) if (sl == op.o2) dup = true;
        if (pk && pk->type == T_CONT && !dup) { po->using_conts.push_back(op.o2); ++pk->users; } }
    }
  }
  H h; h.u(r.digest); h.u((uint64_t)r.outcome); r.digest = h.h;
}

static void run_ops(Ctx& c, int task) {
  int n = (int)c.plan.ops.size();
  for (int idx = 0; idx < n; ++idx) {
    if (c.plan.ops[idx].task != task) continue;
    sim_status_op((uint64_t)idx);
    c.out.res.emplace_back();
    exec_one(c, idx, c.out.res.back());
    if (c.out.res.back().outcome == 1 || c.out.res.back().outcome == 5) { c.out.faulted = true; if (!(c.model & 2)) break; }   // after a fault only destruction is promised (C12 fault histories go on: Clear() first)
  }
}

} // namespace

WorkShared* work_shared_create(const Plan& plan, TaskOut& out, int model) {
  WorkShared* s = new WorkShared();
  Obj none[16];
  Ctx c{plan, -1, none, s, out, model};
  run_ops(c, -1);
  return s;
}
void work_shared_destroy(WorkShared* s) {
  if (!s) return;
  for (int k = 7; k >= 0; --k) destroy_obj(s->shared[k], 1 << 20);
  delete s;
}
void work_exec_task(const Plan& plan, int task, WorkShared* shared, TaskOut& out, int model) {
  Obj slots[16];
  Ctx c{plan, task, slots, shared, out, model};
  run_ops(c, task);
  // destroy everything the task still owns: clippers first (containers outlive their users), then the rest
  int dop = (1 << 20) + task;
  for (int pass = 0; pass < 2; ++pass)
    for (int k = 15; k >= 0; --k) {
      Obj& o = slots[k];
      if (o.type == T_NONE) continue;
      if (pass == 0 && o.type == T_CONT) continue;
      if (o.type == T_C64 || o.type == T_CD) release_conts(c, o);
      destroy_obj(o, dop);
    }
  out.destroyed_ok = true;
}
// Process-wide lazy initialisation inside libstdc++ (ctype widen cache, numpunct caches, locale facets) is triggered
// once here, so that the step count of a run does not depend on what ran earlier in the same process.
void work_warmup() {
  std::ostringstream os;
  os << 1 << ' ' << -2.5 << ' ' << (int64_t)-3 << ' ' << (size_t)4 << std::endl;
  Paths64 p{Path64{Point64(1, 2), Point64(3, 4)}}; PathsD pd{PathD{PointD(1.5, 2.5)}};
  os << p << pd;
  PolyTree64 t; t.AddChild(p[0]); os << t;
  PolyTreeD td; td.AddChild(p[0]); os << td;
  std::string s = os.str(); (void)s;
}
int work_has_usingz() {
#ifdef USINGZ
  return 1;
#else
  return 0;
#endif
}
const char* work_op_names() { return ""; }

} // namespace sim
