// Seeded generators: run index -> plan. Uninstrumented (exe side).
// Every choice comes from sub-streams of one integer: mix(VERIF_SEED, property, run) then tag
// ("gen", "sched", "fault", "env"), so shrinking one dimension never shifts the draws of another.
#include "gen.h"
#include <algorithm>
#include <cmath>
#include <cstdio>

namespace sim {

// ------------------------------------------------------------------ geometry generators
struct Frame { int64_t cx, cy, ext, grid; };   // points lie in [c-ext, c+ext], snapped to grid

static int64_t snap(int64_t v, int64_t g) { return g > 1 ? (v / g) * g : v; }
static PPt rnd_pt(Rng& r, const Frame& f) {
  PPt p; p.x = f.cx + snap(r.range(-f.ext, f.ext), f.grid); p.y = f.cy + snap(r.range(-f.ext, f.ext), f.grid);
  return p;
}
static Frame make_frame(Rng& r, int64_t mag) {
  Frame f; f.grid = 1;
  int k = (int)r.below(12);
  if (k >= 10) {                                                                    // small lattice: (2n+1)^2 points with spacing g: touching, collinear and coincident configurations dominate
    int64_t n = r.range(1, 3); int64_t gmax = std::max<int64_t>(1, mag / (4 * n)); int64_t gsp = r.chance(0.5) ? r.range(1, std::min<int64_t>(gmax, 16)) : r.range(1, gmax);
    f.grid = gsp; f.ext = n * gsp; int64_t room = mag - f.ext; f.cx = room > 0 && r.chance(0.5) ? snap(r.range(-room, room), gsp) : 0; f.cy = room > 0 && r.chance(0.5) ? snap(r.range(-room, room), gsp) : 0;
    return f;
  }
  if (k < 3) { f.ext = mag; f.cx = f.cy = 0; }                                    // full range
  else if (k < 6) { f.ext = std::max<int64_t>(1, std::min<int64_t>(mag / 2, r.range(2, 64))); f.cx = r.range(-(mag - f.ext), mag - f.ext); f.cy = r.range(-(mag - f.ext), mag - f.ext); } // tiny window somewhere
  else if (k < 8) { f.ext = std::max<int64_t>(1, mag / 2); f.cx = r.chance(0.5) ? mag / 2 : -(mag / 2); f.cy = r.chance(0.5) ? mag / 2 : -(mag / 2); } // hugging a corner of the range
  else { f.ext = std::max<int64_t>(1, std::min<int64_t>(mag, r.range(4, 4096))); f.cx = 0; f.cy = 0; }
  if (r.chance(0.35) && f.ext >= 8) f.grid = std::max<int64_t>(1, f.ext / r.range(2, 8));
  return f;
}

static PPath gen_base(Rng& r, const Frame& f, int fam, int maxpts) {
  PPath p;
  int n;
  switch (fam) {
    case 0: n = (int)r.range(3, std::max(3, std::min(maxpts, 120))); for (int i = 0; i < n; ++i) p.push_back(rnd_pt(r, f)); break;  // random polygon (quadratic number of crossings: never huge)
    case 1: {                                                                                                     // star / regular
      n = (int)r.range(3, std::max(3, std::min(maxpts, 24)));
      double r1 = (double)f.ext, r2 = (double)f.ext * r.unit(), ph = r.unit() * 6.28318530717958647692;
      for (int i = 0; i < n; ++i) { double a = ph + 6.28318530717958647692 * i / n, rr = (i & 1) ? r2 : r1; PPt q; q.x = f.cx + (int64_t)std::llround(rr * std::cos(a)); q.y = f.cy + (int64_t)std::llround(rr * std::sin(a)); p.push_back(q); }
      break; }
    case 2: {                                                                                                     // rectilinear staircase
      int steps = (int)r.range(1, std::max(1, std::min(maxpts / 4, 6)));
      int64_t g = std::max<int64_t>(1, f.ext / (steps + 1));
      int64_t x = f.cx - f.ext, y = f.cy - f.ext;
      p.push_back({x, y, 0});
      for (int i = 0; i < steps; ++i) { x += g * r.range(1, 2) / 1; if (x > f.cx + f.ext) x = f.cx + f.ext; p.push_back({x, y, 0}); y += g; p.push_back({x, y, 0}); }
      p.push_back({f.cx - f.ext, y, 0});
      break; }
    case 3: { PPt a = rnd_pt(r, f), b = rnd_pt(r, f); p = {{a.x, a.y, 0}, {b.x, a.y, 0}, {b.x, b.y, 0}, {a.x, b.y, 0}}; break; }  // rectangle (possibly flat)
    case 4: {                                                                                                     // degenerate
      int k = (int)r.below(6);
      if (k == 0) {}                                           // empty
      else if (k == 1) p.push_back(rnd_pt(r, f));              // one point
      else if (k == 2) { p.push_back(rnd_pt(r, f)); p.push_back(rnd_pt(r, f)); }
      else if (k == 3) { PPt a = rnd_pt(r, f); n = (int)r.range(2, 9); for (int i = 0; i < n; ++i) p.push_back(a); }       // all the same point
      else if (k == 4) { PPt a = rnd_pt(r, f); int64_t dx = r.range(-3, 3), dy = r.range(-3, 3); n = (int)r.range(3, 7); for (int i = 0; i < n; ++i) { int64_t t = r.range(-4, 4); p.push_back({a.x + dx * t, a.y + dy * t, 0}); } } // collinear
      else { PPt a = rnd_pt(r, f); n = (int)r.range(3, 6); for (int i = 0; i < n; ++i) p.push_back({a.x + r.range(-8, 8) * (i & 1), a.y, 0}); } // flat horizontal
      break; }
    case 5: {                                                                                                     // long thin / near parallel
      PPt a = rnd_pt(r, f), b = rnd_pt(r, f);
      p.push_back(a); p.push_back(b); p.push_back({b.x + r.range(-2, 2), b.y + r.range(-2, 2), 0});
      if (r.chance(0.5)) p.push_back({a.x + r.range(-2, 2), a.y + r.range(-2, 2), 0});
      break; }
    case 7: {                                                                                                     // star polygon {n/k}: edges pass right through the middle
      n = (int)r.range(5, std::max(5, std::min(maxpts, 13))); int k = (int)r.range(2, std::max(2, n / 2));
      double rr = (double)f.ext, ph = r.unit() * 6.28318530717958647692;
      for (int i = 0; i < n; ++i) { double a = ph + 6.28318530717958647692 * (double)((i * k) % n) / n; PPt q; q.x = f.cx + (int64_t)std::llround(rr * std::cos(a)); q.y = f.cy + (int64_t)std::llround(rr * std::sin(a)); p.push_back(q); }
      break; }
    case 8: {                                                                                                     // shallow zigzag: long nearly horizontal edges (|dx/dy| >> 100)
      n = (int)r.range(3, std::max(3, std::min(maxpts, 10))); int64_t y = f.cy + r.range(-4, 4);
      for (int i = 0; i < n; ++i) { PPt q; q.x = ((i & 1) ? f.cx + f.ext : f.cx - f.ext) + ((i & 1) ? -1 : 1) * r.range(0, std::max<int64_t>(0, f.ext / 8)); q.y = y; p.push_back(q); y += r.range(-3, 3); }
      if (r.chance(0.5)) { PPt q = rnd_pt(r, f); p.push_back(q); }
      break; }
    // families 9-11 are the only ones that use a large maxpts in full: long paths whose number of crossings stays linear
    case 9: {                                                                                                     // growing sawtooth: n/2 local minima, every split of a recursive simplifier lands on the last tooth
      n = (int)r.range(std::max(3, maxpts / 2), std::max(3, maxpts)); int wig = (int)r.below(3);
      double w = 2.0 * (double)f.ext / (double)(n + 1);
      for (int i = 0; i < n; ++i) {
        int tooth = i / (1 + wig), sub = i % (1 + wig);
        double amp = (double)f.ext * (double)(tooth + 1) * (double)(1 + wig) / (double)(n + 1);
        PPt q; q.x = f.cx - f.ext + (int64_t)std::llround(w * (i + 1));
        q.y = f.cy + ((tooth & 1) ? (int64_t)std::llround(amp) - sub : -(int64_t)r.range(0, 2) - sub);
        p.push_back(q);
      }
      break; }
    case 10: {                                                                                                    // spiral
      n = (int)r.range(std::max(3, std::min(maxpts, 2000) / 2), std::max(3, std::min(maxpts, 2000))); double step = 0.2 + r.unit() * 1.3, ph = r.unit() * 6.28318530717958647692;
      step = std::min(step, 60.0 * 6.28318530717958647692 / (double)n);      // at most 60 turns: a path that crosses the spiral meets every turn
      for (int i = 0; i < n; ++i) { double a = ph + step * i, rr = (double)f.ext * (double)(i + 1) / (double)(n + 1); PPt q; q.x = f.cx + (int64_t)std::llround(rr * std::cos(a)); q.y = f.cy + (int64_t)std::llround(rr * std::sin(a)); p.push_back(q); }
      break; }
    case 11: {                                                                                                    // comb: rectilinear teeth, horizontals and verticals only
      n = (int)r.range(std::max(4, maxpts / 2), std::max(4, maxpts)) / 4 * 4; if (n < 4) n = 4;
      double w = 2.0 * (double)f.ext / (double)(n / 2 + 1); int64_t base = f.cy - f.ext;
      for (int i = 0; i < n / 4; ++i) {
        int64_t x0 = f.cx - f.ext + (int64_t)std::llround(w * (2 * i)), x1 = f.cx - f.ext + (int64_t)std::llround(w * (2 * i + 1)); int64_t top = f.cy + snap(r.range(-f.ext / 2, f.ext), f.grid);
        p.push_back({x0, base, 0}); p.push_back({x0, top, 0}); p.push_back({x1, top, 0}); p.push_back({x1, base, 0});
      }
      p.push_back({f.cx + f.ext, base - std::max<int64_t>(1, f.ext / 8), 0}); p.push_back({f.cx - f.ext, base - std::max<int64_t>(1, f.ext / 8), 0});
      break; }
    case 13: {                                                                                                    // many-vertex circle: the only family used for tens of thousands of points (two active edges: linear sweep)
      n = (int)r.range(std::max(3, maxpts / 2), std::max(3, maxpts)); double ph = r.unit() * 6.28318530717958647692, rad = (double)f.ext;
      for (int i = 0; i < n; ++i) { double a = ph + 6.28318530717958647692 * (double)i / (double)n; PPt q; q.x = f.cx + (int64_t)std::llround(rad * std::cos(a)); q.y = f.cy + (int64_t)std::llround(rad * std::sin(a)); p.push_back(q); }
      break; }
    case 12: {                                                                                                    // near-collinear at scale: equal long steps w = T*d + unit, then small slides along d
      int64_t dx = r.range(-3, 3), dy = r.range(-3, 3); if (dx == 0 && dy == 0) dx = 1;
      int64_t T = std::max<int64_t>(1, f.ext / (4 * std::max<int64_t>(1, std::max(std::llabs(dx), std::llabs(dy)))));
      T = r.range(std::max<int64_t>(1, T / 2), T);
      int64_t ux = 0, uy = 0; if (r.chance(0.5)) ux = r.chance(0.5) ? 1 : -1; else uy = r.chance(0.5) ? 1 : -1;
      int64_t wx = T * dx + ux, wy = T * dy + uy;
      PPt a; a.x = f.cx - wx - wx / 2; a.y = f.cy - wy - wy / 2; p.push_back(a);
      int steps = (int)r.range(2, 3);
      for (int i = 1; i <= steps; ++i) { int64_t sl = i == 1 ? 0 : r.range(-3, 3); PPt q; q.x = a.x + i * wx + sl * dx; q.y = a.y + i * wy + sl * dy; p.push_back(q); }
      PPt far; far.x = f.cx - wy / 2 + r.range(-2, 2); far.y = f.cy + wx / 2 + r.range(-2, 2); p.push_back(far);            // off the line: makes it a polygon
      break; }
    default: {                                                                                                    // random walk (self-intersecting)
      n = (int)r.range(3, std::max(3, std::min(maxpts, 120))); PPt a = rnd_pt(r, f); int64_t st = std::max<int64_t>(1, f.ext / 4);
      for (int i = 0; i < n; ++i) { p.push_back(a); a.x += snap(r.range(-st, st), f.grid); a.y += snap(r.range(-st, st), f.grid);
        if (a.x > f.cx + f.ext) a.x = f.cx + f.ext; if (a.x < f.cx - f.ext) a.x = f.cx - f.ext; if (a.y > f.cy + f.ext) a.y = f.cy + f.ext; if (a.y < f.cy - f.ext) a.y = f.cy - f.ext; }
      break; }
  }
  return p;
}

// decorate: duplicates, collinear midpoints, 180-degree spikes, closing duplicate
static void decorate(Rng& r, PPath& p, int64_t lo, int64_t hi) {
  if (p.empty()) return;
  int k = (int)r.below(8);
  auto clampv = [&](int64_t v) { return v < lo ? lo : (v > hi ? hi : v); };
  if (k == 0) { size_t i = r.below(p.size()); p.insert(p.begin() + i, p[i]); }
  else if (k == 1 && p.size() >= 2) { size_t i = r.below(p.size()); size_t j = (i + 1) % p.size(); PPt m{(p[i].x / 2 + p[j].x / 2), (p[i].y / 2 + p[j].y / 2), 0}; p.insert(p.begin() + i + 1, m); }
  else if (k == 2 && p.size() >= 2) { size_t i = r.below(p.size()); size_t j = (i + 1) % p.size(); PPt s{clampv(p[i].x + (p[j].x - p[i].x) / 3), clampv(p[i].y + (p[j].y - p[i].y) / 3), 0}; PPt keep = p[i]; p.insert(p.begin() + i + 1, s); p.insert(p.begin() + i + 2, keep); } // spike out and back
  else if (k == 3) p.push_back(p.front());
  else if (k == 4 && p.size() >= 2) std::reverse(p.begin(), p.end());
  else if (k == 5) { for (int t = 0; t < 3; ++t) { size_t i = r.below(p.size()); p.insert(p.begin() + i, p[i]); } }
}

static void add_z(Rng& r, PPath& p, bool z) { if (z) for (PPt& q : p) q.z = r.range(0, 9); }

static int g_huge_fam = 13;
PPaths gen_paths(Rng& r, int64_t mag, int maxpaths, int maxpts, bool z, const Frame* shared) {
  PPaths out;
  Frame f = shared ? *shared : make_frame(r, mag);
  int np = (int)r.range(0, maxpaths);
  if (r.chance(0.85) && np == 0) np = 1;
  for (int i = 0; i < np; ++i) {
    PPath p;
    if (i > 0 && r.chance(0.2)) {                       // coincident / overlapping copy of an earlier path
      p = out[r.below(out.size())];
      int k = (int)r.below(4);
      if (k == 0) std::reverse(p.begin(), p.end());
      else if (k == 1) { int64_t dx = r.range(-2, 2), dy = r.range(-2, 2); for (PPt& q : p) { q.x = std::max(-mag, std::min(mag, q.x + dx)); q.y = std::max(-mag, std::min(mag, q.y + dy)); } }
      else if (k == 2 && !p.empty()) std::rotate(p.begin(), p.begin() + r.below(p.size()), p.end());
    } else {
      static const int fams[] = {0, 0, 0, 1, 1, 2, 2, 3, 3, 4, 4, 5, 6, 6, 7, 8, 9, 10, 11, 12};
      int fam = fams[r.below(sizeof(fams) / sizeof(int))];
      if (maxpts > 120 && r.chance(0.75)) fam = 9 + (int)r.below(3);       // a large size class means a long structured path
      if (maxpts > 2000) fam = r.chance(0.5) ? 9 : 11;                      // the largest class: only the families whose crossings stay linear
      if (maxpts > 4000) fam = g_huge_fam;                                  // tens of thousands of points: circle (sweep) or saw-tooth (rectangle clipping, which is linear)
      Frame g = f;
      if (r.chance(0.3)) { g.ext = std::max<int64_t>(1, f.ext / 2); g.cx = f.cx + snap(r.range(-f.ext / 2, f.ext / 2), f.grid); g.cy = f.cy + snap(r.range(-f.ext / 2, f.ext / 2), f.grid); }
      p = gen_base(r, g, fam, maxpts);
      for (PPt& q : p) { q.x = std::max(-mag, std::min(mag, q.x)); q.y = std::max(-mag, std::min(mag, q.y)); }
      if (r.chance(0.4)) decorate(r, p, -mag, mag);
      if (r.chance(0.15)) decorate(r, p, -mag, mag);
    }
    add_z(r, p, z);
    out.push_back(std::move(p));
  }
  return out;
}

// now and then the floating-point input is far outside what the integer engine can hold after scaling: the library
// must reject it (range error) whatever the precision, never let it through
static Plan gen_c12_base(uint64_t seed, uint64_t run, const std::string& cfg);
static bool g_allow_blow_up = false;   // only in C10 cases generated for the builds without the strict signed-overflow check
static bool g_allow_dup_container = false;   // only in C10 cases: the same container added twice to one clipper (known finding C10-F9)
static void maybe_blow_up(PPathsD& pp, Rng& r) {
  if (!g_allow_blow_up || !r.chance(0.06)) return;
  // the input coordinates themselves stay within 2^40 (the property's range); it is coordinate x 10^precision that does not fit
  double mx = 0; for (PPathD& p : pp) for (PPtD& q : p) mx = std::max(mx, std::max(std::fabs(q.x), std::fabs(q.y)));
  if (mx <= 0) return;
  double target = std::ldexp(1.0, (int)r.range(30, 40)) * (0.5 + 0.5 * r.unit());
  double f = target / mx; if (f <= 1) return;
  for (PPathD& p : pp) for (PPtD& q : p) { q.x *= f; q.y *= f; }
}
static PPathsD to_d(const PPaths& pp, double div, Rng& r, bool noise) {
  PPathsD out;
  for (const PPath& p : pp) { PPathD q; for (const PPt& a : p) { PPtD b; b.x = (double)a.x / div; b.y = (double)a.y / div; if (noise && r.chance(0.2)) { b.x += 0.25 / div; } b.z = a.z; q.push_back(b); } out.push_back(q); }
  if (noise) maybe_blow_up(out, r);
  return out;
}

// ------------------------------------------------------------------ plan builders
static Op mkop(const char* kind, int task = 0) { Op o; o.kind = kind; o.task = task; return o; }
static void setP(Op& o, int k, PPaths p) { o.P[k] = std::move(p); o.hasP[k] = true; }
static void setD(Op& o, int k, PPathsD p) { o.D[k] = std::move(p); o.hasD[k] = true; }

struct MagClass { int64_t mag; bool boolean_only; };
static MagClass pick_mag(Rng& r, const std::string& cfg, bool boolean_op) {
  bool big = cfg.find("62") != std::string::npos;
  if (!big) { static const int sh[] = {4, 7, 10, 16, 20, 26, 29}; return {((int64_t)1 << sh[r.below(7)]), false}; }
  if (boolean_op && r.chance(0.5)) { static const int sh[] = {45, 50, 55, 60, 61, 62}; return {((int64_t)1 << sh[r.below(6)]), true}; }
  static const int sh[] = {31, 33, 36, 40}; return {((int64_t)1 << sh[r.below(4)]), false};
}
static int pick_prec(Rng& r, bool allow_bad) {
  if (allow_bad && r.chance(0.04)) { static const int bad[] = {-9, 9, 12, -100, 1000}; return bad[r.below(5)]; }
  return (int)r.range(-8, 8);
}
// D inputs whose scaled integer image stays inside the magnitude class (ClipperD scales by the next power of two >= 10^prec)
static PPathsD gen_pathsd(Rng& r, int64_t mag, int prec, int maxpaths, int maxpts, bool z, bool pow2scale) {
  int p = prec < -8 ? -8 : (prec > 8 ? 8 : prec);
  double sc = std::pow(10.0, p);
  int64_t m = (int64_t)std::min<double>((double)mag, std::max(1.0, (double)mag / (pow2scale ? 2.0 : 1.0)));
  PPaths ip = gen_paths(r, std::max<int64_t>(1, m), maxpaths, maxpts, z, nullptr);
  return to_d(ip, sc, r, true);
}

// offsets: keep the number of arc vertices executable (domain restriction stated in DESIGN 3.1.1)
// spacing of the vertices of the densest long path (bounding-box side / number of points), or a huge value if no path is long
static double long_path_spacing(const PPaths& pp) {
  double best = 1e300;
  for (const PPath& p : pp) if (p.size() > 150) {
    int64_t lx = INT64_MAX, hx = INT64_MIN, ly = INT64_MAX, hy = INT64_MIN;
    for (const PPt& q : p) { lx = std::min(lx, q.x); hx = std::max(hx, q.x); ly = std::min(ly, q.y); hy = std::max(hy, q.y); }
    best = std::min(best, std::max((double)hx - (double)lx, (double)hy - (double)ly) / (double)p.size());
  }
  return best;
}
static void pick_offset_params(Rng& r, int64_t ext, int nverts, double& delta, double& miter, double& arc, int64_t mag, double spacing = 1e300) {
  static const double small[] = {0, 0.3, 0.5, 1, 2.5, 7};
  int k = (int)r.below(10);
  double e = (double)std::max<int64_t>(1, ext);
  if (k < 3) delta = small[r.below(6)];
  else if (k < 6) delta = e * (0.05 + r.unit() * 0.5);
  else if (k < 8) delta = e * (1 + r.unit() * 4);
  else if (k < 9) delta = (double)mag * r.unit();
  else delta = (double)r.range(1, 1000);
  // long paths: an offset much wider than the spacing of the vertices makes every stroke overlap hundreds of others
  // (quadratic number of crossings in the finishing union); keep it within a few vertex spacings
  if (nverts > 150) delta = std::min(delta, std::max(1.0, 3.0 * e / (double)nverts));
  if (spacing < 1e299) delta = std::min(delta, std::max(1.0, 1.5 * spacing));
  if (r.chance(0.45)) delta = -delta;
  static const double ml[] = {2.0, 2.0, 0, 1, 1.5, 3, 10, 100};
  miter = ml[r.below(8)];
  static const double at[] = {0, 0, 0, 0.25, 1, 0.01, 5, 1e-3, 100};
  arc = at[r.below(9)];
  double ad = std::fabs(delta);
  if (arc > 1e-12 && ad > 0) {
    double tol = std::min(ad, arc);
    double steps360 = std::min(3.14159265358979 / std::acos(1 - tol / ad), ad * 3.14159265358979);
    double budget = 50000.0 / std::max(1, nverts);
    if (steps360 > budget) arc = 0;              // fall back to the library default (about 50 steps per circle)
  }
}

static int count_pts(const PPaths& pp) { int n = 0; for (const PPath& p : pp) n += (int)p.size(); return n; }
static int64_t extent_of(const PPaths& pp) {
  int64_t lx = INT64_MAX, hx = INT64_MIN, ly = INT64_MAX, hy = INT64_MIN;           // the larger side of the bounding box
  for (const PPath& p : pp) for (const PPt& q : p) { lx = std::min(lx, q.x); hx = std::max(hx, q.x); ly = std::min(ly, q.y); hy = std::max(hy, q.y); }
  if (lx > hx) return 1;
  double e = std::max((double)hx - (double)lx, (double)hy - (double)ly); return e > 9e18 ? INT64_MAX / 2 : std::max<int64_t>(1, std::max(hx - lx, hy - ly));
}

// Minkowski: pattern and path. The work is pattern x path quadrilaterals and their union; a large size class gives a pattern
// of up to 40 points and a circle of up to 3000 (tens of thousands of quadrilaterals, two of them active per scanline: linear).
static void mink_inputs(Rng& r, const Frame& f, int maxpts, PPaths& pp) {
  Frame pf{0, 0, std::max<int64_t>(1, std::min<int64_t>(f.ext, r.range(1, 50))), 1};
  if (maxpts >= 1500) { pp.push_back(gen_base(r, pf, 13, 40)); pp.push_back(gen_base(r, f, 13, 3000)); }
  else if (maxpts > 100) { pp.push_back(gen_base(r, pf, (int)r.below(7), 8)); pp.push_back(gen_base(r, f, 13, 400)); }
  else { pp.push_back(gen_base(r, pf, (int)r.below(7), std::min(maxpts, 8))); pp.push_back(gen_base(r, f, (int)r.below(7), std::min(maxpts, 24))); }
}

// One entry-point exercise appended to plan as ops of `task` using object slots starting at slot0.
// kind selects the entry class; returns number of slots used.
static int append_entry(Rng& r, Plan& pl, int kind, int task, int slot0, const std::string& cfg, bool z, int maxpaths, int maxpts, int shared_cont_slot) {
  auto push = [&](Op o) { pl.ops.push_back(std::move(o)); };
  switch (kind) {
    case 0: case 1: {  // Clipper64 object (0: paths, 1: polytree), with optional reuse of the same object
      MagClass mc = pick_mag(r, cfg, true);
      Op n = mkop("new_c64", task); n.o = slot0; push(n);
      if (r.chance(0.3)) { Op o = mkop("pc", task); o.o = slot0; o.i = {(int64_t)r.below(2)}; push(o); }
      if (r.chance(0.3)) { Op o = mkop("rs", task); o.o = slot0; o.i = {(int64_t)r.below(2)}; push(o); }
      if (z && r.chance(0.6)) { Op o = mkop("setz", task); o.o = slot0; o.i = {(int64_t)r.range(1, 2)}; push(o); }
      if (z && r.chance(0.3)) { Op o = mkop("defz", task); o.o = slot0; o.i = {(int64_t)r.range(-5, 5)}; push(o); }
      Frame f = make_frame(r, mc.mag);
      int na = (int)r.range(1, 3);
      for (int i = 0; i < na; ++i) { Op o = mkop("c_add", task); o.o = slot0; o.i = {(int64_t)(i == 0 ? 0 : r.below(3))}; setP(o, 0, gen_paths(r, mc.mag, maxpaths, maxpts, z, r.chance(0.8) ? &f : nullptr)); push(o); }
      if (shared_cont_slot >= 0 && r.chance(0.7)) { Op o = mkop("c_reuse", task); o.o = slot0; o.o2 = shared_cont_slot; push(o); }
      int ne = (int)r.range(1, 2);
      for (int i = 0; i < ne; ++i) {
        Op o = mkop("c_exec", task); o.o = slot0;
        o.i = {(int64_t)r.range(0, 4), (int64_t)r.below(4), (int64_t)(kind == 0 ? r.below(2) : 2 + r.below(2)), (int64_t)r.below(2)};
        if (r.chance(0.9) && o.i[0] == 0) o.i[0] = r.range(1, 4);
        push(o);
      }
      if (r.chance(0.25)) { Op o = mkop("clear", task); o.o = slot0; push(o); }
      if (r.chance(0.7)) { Op o = mkop("del", task); o.o = slot0; push(o); }
      return 1; }
    case 2: {  // ClipperD object
      MagClass mc = pick_mag(r, cfg, true);
      int prec = pick_prec(r, false);
      Op n = mkop("new_cd", task); n.o = slot0; n.i = {prec}; push(n);
      if (z && r.chance(0.6)) { Op o = mkop("setz", task); o.o = slot0; o.i = {(int64_t)r.range(1, 2)}; push(o); }
      int na = (int)r.range(1, 3);
      for (int i = 0; i < na; ++i) { Op o = mkop("c_add", task); o.o = slot0; o.i = {(int64_t)(i == 0 ? 0 : r.below(3))}; setD(o, 0, gen_pathsd(r, std::min<int64_t>(mc.mag, (int64_t)1 << 60), prec, maxpaths, maxpts, z, true)); push(o); }
      Op o = mkop("c_exec", task); o.o = slot0; o.i = {(int64_t)r.range(1, 4), (int64_t)r.below(4), (int64_t)r.below(4), (int64_t)r.below(2)}; push(o);
      if (r.chance(0.7)) { Op d = mkop("del", task); d.o = slot0; push(d); }
      return 1; }
    case 3: {  // free boolean functions, 64
      MagClass mc = pick_mag(r, cfg, true); Frame f = make_frame(r, mc.mag);
      int w = (int)r.below(3);
      Op o = mkop(w == 0 ? "boolop64" : (w == 1 ? "booltree64" : "named64"), task);
      o.i = {(int64_t)(w == 2 ? r.below(5) : r.range(0, 4)), (int64_t)r.below(4)};
      setP(o, 0, gen_paths(r, mc.mag, maxpaths, maxpts, z, &f)); setP(o, 1, gen_paths(r, mc.mag, maxpaths, maxpts, z, r.chance(0.8) ? &f : nullptr));
      push(o); return 0; }
    case 4: {  // free boolean functions, D
      MagClass mc = pick_mag(r, cfg, true); int prec = pick_prec(r, true);
      int w = (int)r.below(3);
      Op o = mkop(w == 0 ? "boolopD" : (w == 1 ? "booltreeD" : "namedD"), task);
      o.i = {(int64_t)(w == 2 ? r.below(5) : r.range(0, 4)), (int64_t)r.below(4), prec};
      int64_t m = std::min<int64_t>(mc.mag, (int64_t)1 << 60);
      setD(o, 0, gen_pathsd(r, m, prec, maxpaths, maxpts, z, true)); setD(o, 1, gen_pathsd(r, m, prec, maxpaths, maxpts, z, true));
      push(o); return 0; }
    case 5: {  // ClipperOffset object
      maxpts = std::min(maxpts, 300);   // offsetting multiplies the vertex count, and the sweep of the finishing union is quadratic in it for comb-like input
      MagClass mc = pick_mag(r, cfg, false);
      std::vector<PPaths> groups; int ng = (int)r.range(1, 3); int nv = 0; int64_t ext = 1;
      Frame f = make_frame(r, mc.mag);
      for (int i = 0; i < ng; ++i) { groups.push_back(gen_paths(r, mc.mag, maxpaths, maxpts, z, r.chance(0.7) ? &f : nullptr)); nv += count_pts(groups.back()); ext = std::max(ext, extent_of(groups.back())); }
      double spacing = 1e300; for (const PPaths& gp : groups) spacing = std::min(spacing, long_path_spacing(gp));
      double delta, miter, arc; pick_offset_params(r, ext, nv, delta, miter, arc, mc.mag, spacing);
      Op n = mkop("new_off", task); n.o = slot0; n.d = {miter, arc}; n.i = {(int64_t)r.below(2), (int64_t)r.below(2)}; push(n);
      if (z && r.chance(0.5)) { Op o = mkop("setz", task); o.o = slot0; o.i = {(int64_t)r.range(1, 2)}; push(o); }
      for (int i = 0; i < ng; ++i) {
        bool single = r.chance(0.3) && !groups[i].empty();
        Op o = mkop(single ? "f_addpath" : "f_addpaths", task); o.o = slot0; o.i = {(int64_t)r.below(4), (int64_t)r.below(5)};
        setP(o, 0, groups[i]); push(o);
      }
      int w = (int)r.below(10);
      if (w < 2) { Op o = mkop("f_execcb", task); o.o = slot0; o.i = {(int64_t)r.below(6), (int64_t)r.below(2), 0}; o.d = {std::min(std::fabs(delta) + 1, 1e6)}; push(o); }
      else {
        if (w < 4) { Op s = mkop("f_setdcb", task); s.o = slot0; s.i = {(int64_t)r.range(1, 6)}; s.d = {std::min(std::fabs(delta) + 1, 1e6)}; push(s); }
        Op o = mkop("f_exec", task); o.o = slot0; o.d = {delta}; o.i = {(int64_t)r.below(2), (int64_t)r.below(2), 0}; push(o);
      }
      if (r.chance(0.2)) { Op o = mkop("f_exec", task); o.o = slot0; o.d = {-delta * 0.5}; o.i = {(int64_t)r.below(2), 0, 0}; push(o); }
      if (r.chance(0.12)) {                      // a copy of the object (copy construction; sometimes assigned over once more) is used and destroyed like any other
        Op k = mkop("copy", task); k.o = slot0; k.o2 = slot0 + 1; k.i = {0}; push(k);
        if (r.chance(0.3)) { Op k2 = mkop("copy", task); k2.o = slot0; k2.o2 = slot0 + 1; k2.i = {1}; push(k2); }
        Op o = mkop("f_exec", task); o.o = slot0 + 1; o.d = {delta}; o.i = {(int64_t)r.below(2), (int64_t)r.below(2), 0}; push(o);
        if (r.chance(0.5)) { Op o2 = mkop("f_exec", task); o2.o = slot0; o2.d = {delta}; o2.i = {(int64_t)r.below(2), 0, 0}; push(o2); }
        if (r.chance(0.7)) { Op d = mkop("del", task); d.o = r.chance(0.5) ? slot0 : slot0 + 1; push(d); }
        return 2;
      }
      if (r.chance(0.7)) { Op d = mkop("del", task); d.o = slot0; push(d); }
      return 1; }
    case 6: {  // InflatePaths free functions
      maxpts = std::min(maxpts, 300);   // offsetting multiplies the vertex count, and the sweep of the finishing union is quadratic in it for comb-like input
      MagClass mc = pick_mag(r, cfg, false);
      if (r.chance(0.5)) {
        PPaths pp = gen_paths(r, mc.mag, maxpaths, maxpts, z, nullptr); double delta, miter, arc; pick_offset_params(r, extent_of(pp), count_pts(pp), delta, miter, arc, mc.mag, long_path_spacing(pp));
        Op o = mkop("inflate64", task); o.d = {delta, miter, arc}; o.i = {(int64_t)r.below(4), (int64_t)r.below(5)}; setP(o, 0, pp); push(o);
      } else {
        int prec = pick_prec(r, true); int pc = prec < -8 ? -8 : (prec > 8 ? 8 : prec);
        PPaths ip = gen_paths(r, mc.mag, maxpaths, maxpts, z, nullptr); double delta, miter, arc; pick_offset_params(r, extent_of(ip), count_pts(ip), delta, miter, arc, mc.mag, long_path_spacing(ip));
        double sc = std::pow(10.0, pc);
        Op o = mkop("inflateD", task); o.d = {delta / sc, miter, arc / sc}; o.i = {(int64_t)r.below(4), (int64_t)r.below(5), prec}; setD(o, 0, to_d(ip, sc, r, true)); push(o);
      }
      return 0; }
    case 7: {  // rect clip: free functions and objects
      struct HugeFam { int old; HugeFam() : old(g_huge_fam) { g_huge_fam = 9; } ~HugeFam() { g_huge_fam = old; } } huge_fam_is_sawtooth;
      MagClass mc = pick_mag(r, cfg, false); Frame f = make_frame(r, mc.mag);
      PPt a = rnd_pt(r, f), b = rnd_pt(r, f);
      if (r.chance(0.4)) { int64_t h = std::max<int64_t>(1, f.ext / r.range(3, 8)); a = {f.cx - h, f.cy - h, 0}; b = {f.cx + h, f.cy + h, 0}; }   // small rectangle in the middle: paths cross it many times
      int64_t l = std::min(a.x, b.x), rr = std::max(a.x, b.x), t = std::min(a.y, b.y), bb = std::max(a.y, b.y);
      if (r.chance(0.1)) rr = l; if (r.chance(0.05)) std::swap(t, bb);
      int w = (int)r.below(4);
      // paths that cross the rectangle many times and wrap round its corners outside: dense star polygons centred on it
      auto crossing_paths = [&]() {
        PPaths pp = gen_paths(r, mc.mag, maxpaths, maxpts, z, &f);
        if (r.chance(0.35) && rr > l && bb > t) {
          int n = 5 + 2 * (int)r.below(5), k = n / 2 - (int)r.below(2); if (k < 2) k = 2;
          double hw = (double)(rr - l) / 2, hh = (double)(bb - t) / 2, rad = std::max(hw, hh) * (1.5 + r.unit() * 6) + 2, ph = r.unit() * 6.28318530717958647692;
          int64_t cx = l + (rr - l) / 2, cy = t + (bb - t) / 2; PPath s;
          for (int i = 0; i < n; ++i) { double a = ph + 6.28318530717958647692 * (double)((i * k) % n) / n; PPt q; q.x = cx + (int64_t)std::llround(rad * std::cos(a)); q.y = cy + (int64_t)std::llround(rad * std::sin(a));
            q.x = std::max(-mc.mag, std::min(mc.mag, q.x)); q.y = std::max(-mc.mag, std::min(mc.mag, q.y)); s.push_back(q); }
          if (r.chance(0.3)) std::reverse(s.begin(), s.end());
          add_z(r, s, z); pp.push_back(s);
        }
        return pp;
      };
      if (w == 0) { Op o = mkop("rectclip64", task); o.i = {l, t, rr, bb, (int64_t)r.below(2), (int64_t)r.below(2)}; setP(o, 0, crossing_paths()); push(o); return 0; }
      if (w == 1) {
        int prec = pick_prec(r, true); int pc = prec < -8 ? -8 : (prec > 8 ? 8 : prec); double sc = std::pow(10.0, pc);
        Op o = mkop("rectclipD", task); o.d = {l / sc, t / sc, rr / sc, bb / sc}; o.i = {(int64_t)r.below(2), (int64_t)r.below(2), prec};
        setD(o, 0, to_d(gen_paths(r, mc.mag, maxpaths, maxpts, z, &f), sc, r, true)); push(o); return 0; }
      Op n = mkop(w == 2 ? "new_rc" : "new_rcl", task); n.o = slot0; n.i = {l, t, rr, bb}; push(n);
      int ne = (int)r.range(1, 3);
      for (int i = 0; i < ne; ++i) { Op o = mkop("r_exec", task); o.o = slot0; setP(o, 0, crossing_paths()); push(o); }
      if (r.chance(0.12)) {
        Op k = mkop("copy", task); k.o = slot0; k.o2 = slot0 + 1; k.i = {0}; push(k);
        Op o = mkop("r_exec", task); o.o = slot0 + 1; setP(o, 0, crossing_paths()); push(o);
        if (r.chance(0.5)) { Op o2 = mkop("r_exec", task); o2.o = slot0; setP(o2, 0, crossing_paths()); push(o2); }
        if (r.chance(0.7)) { Op d = mkop("del", task); d.o = r.chance(0.5) ? slot0 : slot0 + 1; push(d); }
        return 2;
      }
      if (r.chance(0.7)) { Op d = mkop("del", task); d.o = slot0; push(d); }
      return 1; }
    case 8: {  // Minkowski
      MagClass mc = pick_mag(r, cfg, false);
      int64_t m = std::max<int64_t>(2, mc.mag / 2);           // pattern + path must stay inside the class
      Frame f = make_frame(r, m); PPaths pp;
      mink_inputs(r, f, maxpts, pp);
      for (PPath& p : pp) { for (PPt& q : p) { q.x = std::max(-m, std::min(m, q.x)); q.y = std::max(-m, std::min(m, q.y)); } add_z(r, p, z); }
      if (r.chance(0.1)) pp[r.below(2)].clear();
      if (r.chance(0.6)) { Op o = mkop("mink64", task); o.i = {(int64_t)r.below(2), (int64_t)r.below(2)}; setP(o, 0, pp); push(o); }
      else { int prec = (int)r.range(-8, 8); double sc = std::pow(10.0, prec); Op o = mkop("minkD", task); o.i = {(int64_t)r.below(2), (int64_t)r.below(2), prec}; setD(o, 0, to_d(pp, sc, r, false)); push(o); }
      return 0; }
    case 9: {  // path utilities, 64
      MagClass mc = pick_mag(r, cfg, false);
      int sub = (int)r.below(12);
      Op o = mkop("utils64", task);
      PPaths pp = gen_paths(r, mc.mag, std::max(2, maxpaths), maxpts, z, nullptr);
      double eps = r.chance(0.2) ? 0 : (r.chance(0.5) ? r.unit() * 4 : (double)extent_of(pp) * r.unit());
      int64_t dx = r.range(-mc.mag / 2, mc.mag / 2), dy = r.range(-mc.mag / 2, mc.mag / 2);
      if (sub == 7) for (PPath& p : pp) for (PPt& q : p) { q.x /= 2; q.y /= 2; }
      int64_t steps = r.chance(0.5) ? 0 : r.range(0, 400);
      static const double tiny[] = {0, -1, 0.01, 0.05, 0.09, 0.11, 0.3, 0.5, 1, 2.5};
      double rx = r.chance(0.3) ? tiny[r.below(10)] : (r.chance(0.5) ? r.unit() * 100 : std::min<double>((double)mc.mag / 2, 4e9) * r.unit());
      double ry = r.chance(0.3) ? 0 : rx * r.unit() * 2;
      if (sub == 10) { eps = rx; }
      o.i = {sub, (int64_t)r.below(2), dx, dy, steps}; o.d = {eps, ry}; setP(o, 0, pp); push(o); return 0; }
    case 10: {  // path utilities, D
      MagClass mc = pick_mag(r, cfg, false);
      int sub = (int)r.below(11); int prec = pick_prec(r, sub == 0); int pc = prec < -8 ? -8 : (prec > 8 ? 8 : prec); double sc = std::pow(10.0, pc);
      Op o = mkop("utilsD", task);
      PPaths ip = gen_paths(r, mc.mag, std::max(2, maxpaths), maxpts, z, nullptr);
      double eps = r.chance(0.2) ? 0 : (r.chance(0.5) ? r.unit() * 4 : (double)extent_of(ip) * r.unit()) / sc;
      static const double tiny[] = {0, -1, 0.01, 0.05, 0.09, 0.11, 0.3, 0.5, 1, 2.5};
      double rx = r.chance(0.3) ? tiny[r.below(10)] : (r.chance(0.5) ? r.unit() * 100 : std::min<double>((double)mc.mag / 2, 4e9) * r.unit());
      if (sub == 10) eps = rx;
      o.i = {sub, (int64_t)r.below(2), r.chance(0.5) ? 0 : r.range(0, 400), 0, prec}; o.d = {eps, r.unit() * 50, r.unit() * 50, rx * r.unit()}; setD(o, 0, to_d(ip, sc, r, true)); push(o); return 0; }
    case 11: {  // C export: boolean
      MagClass mc = pick_mag(r, cfg, true); Frame f = make_frame(r, mc.mag);
      if (r.chance(0.55)) {
        Op o = mkop("x_bool64", task);
        o.i = {(int64_t)(r.chance(0.05) ? 9 : r.range(0, 4)), (int64_t)(r.chance(0.05) ? 7 : r.below(4)), (int64_t)r.below(2), (int64_t)r.below(2), (int64_t)r.below(2), (int64_t)(r.chance(0.3) ? r.below(8) : 0)};
        setP(o, 0, gen_paths(r, mc.mag, maxpaths, maxpts, z, &f)); setP(o, 1, r.chance(0.4) ? gen_paths(r, mc.mag, 2, maxpts, z, &f) : PPaths()); setP(o, 2, gen_paths(r, mc.mag, maxpaths, maxpts, z, &f)); push(o);
      } else {
        int prec = r.chance(0.05) ? 9 : (int)r.range(-8, 8); int64_t m = std::min<int64_t>(mc.mag, (int64_t)1 << 60);
        Op o = mkop("x_boolD", task);
        o.i = {(int64_t)(r.chance(0.05) ? 9 : r.range(0, 4)), (int64_t)(r.chance(0.05) ? 7 : r.below(4)), prec, (int64_t)r.below(2), (int64_t)r.below(2), (int64_t)r.below(2), (int64_t)(r.chance(0.3) ? r.below(8) : 0)};
        setD(o, 0, gen_pathsd(r, m, prec, maxpaths, maxpts, z, true)); setD(o, 1, r.chance(0.4) ? gen_pathsd(r, m, prec, 2, maxpts, z, true) : PPathsD()); setD(o, 2, gen_pathsd(r, m, prec, maxpaths, maxpts, z, true)); push(o);
      }
      return 0; }
    case 12: {  // C export: inflate
      maxpts = std::min(maxpts, 300);   // offsetting multiplies the vertex count, and the sweep of the finishing union is quadratic in it for comb-like input
      MagClass mc = pick_mag(r, cfg, false);
      PPaths ip = gen_paths(r, mc.mag, maxpaths, maxpts, z, nullptr); double delta, miter, arc; pick_offset_params(r, extent_of(ip), count_pts(ip), delta, miter, arc, mc.mag, long_path_spacing(ip));
      if (r.chance(0.5)) { Op o = mkop("x_inflate64", task); o.d = {delta, miter, arc}; o.i = {(int64_t)r.below(4), (int64_t)r.below(5), (int64_t)r.below(2), (int64_t)r.below(2), (int64_t)(r.chance(0.1) ? 1 : 0)}; setP(o, 0, ip); push(o); }
      else { int prec = r.chance(0.05) ? -9 : (int)r.range(-8, 8); int pc = prec < -8 ? -8 : prec; double sc = std::pow(10.0, pc);
        // nb: the export layer passes arc_tolerance to ClipperOffset unscaled (unlike InflatePaths(PathsD)), so it is given in scaled units here
        Op o = mkop("x_inflateD", task); o.d = {delta / sc, miter, arc}; o.i = {(int64_t)r.below(4), (int64_t)r.below(5), (int64_t)r.below(2), (int64_t)r.below(2), (int64_t)(r.chance(0.1) ? 1 : 0), prec}; setD(o, 0, to_d(ip, sc, r, true)); push(o); }
      return 0; }
    case 13: {  // C export: rect clip
      MagClass mc = pick_mag(r, cfg, false); Frame f = make_frame(r, mc.mag);
      PPt a = rnd_pt(r, f), b = rnd_pt(r, f);
      int64_t l = std::min(a.x, b.x), rr = std::max(a.x, b.x), t = std::min(a.y, b.y), bb = std::max(a.y, b.y);
      if (r.chance(0.1)) rr = l;
      if (r.chance(0.5)) { Op o = mkop("x_rect64", task); o.i = {l, t, rr, bb, (int64_t)r.below(2), (int64_t)(r.chance(0.1) ? 1 : 0)}; setP(o, 0, gen_paths(r, mc.mag, maxpaths, maxpts, z, &f)); push(o); }
      else { int prec = r.chance(0.05) ? 9 : (int)r.range(-8, 8); int pc = prec > 8 ? 8 : prec; double sc = std::pow(10.0, pc);
        Op o = mkop("x_rectD", task); o.d = {l / sc, t / sc, rr / sc, bb / sc}; o.i = {(int64_t)r.below(2), prec, (int64_t)(r.chance(0.1) ? 1 : 0)}; setD(o, 0, to_d(gen_paths(r, mc.mag, maxpaths, maxpts, z, &f), sc, r, true)); push(o); }
      return 0; }
    case 14: {  // C export: Minkowski
      MagClass mc = pick_mag(r, cfg, false); int64_t m = std::max<int64_t>(2, mc.mag / 2); Frame f = make_frame(r, m); PPaths pp;
      mink_inputs(r, f, maxpts, pp);
      for (PPath& p : pp) { for (PPt& q : p) { q.x = std::max(-m, std::min(m, q.x)); q.y = std::max(-m, std::min(m, q.y)); } add_z(r, p, z); }
      Op o = mkop("x_mink64", task); o.i = {(int64_t)r.below(2), (int64_t)r.below(2), (int64_t)(r.chance(0.1) ? r.below(4) : 0)}; setP(o, 0, pp); push(o); return 0; }
    case 16: {  // open-path clipping: open subjects and closed clips drawn in one (often lattice) frame, all output kinds
      MagClass mc = pick_mag(r, cfg, true); Frame f = make_frame(r, mc.mag);
      if (r.chance(0.6)) { int64_t n = r.range(1, 3), gsp = r.range(1, std::max<int64_t>(1, std::min<int64_t>(mc.mag / 16, 50))); f.grid = gsp; f.ext = n * gsp; f.cx = 0; f.cy = 0; }
      Op n = mkop("new_c64", task); n.o = slot0; push(n);
      if (z) { Op o = mkop("setz", task); o.o = slot0; o.i = {(int64_t)r.range(0, 2)}; push(o); }
      if (r.chance(0.3)) { Op o = mkop("pc", task); o.o = slot0; o.i = {(int64_t)r.below(2)}; push(o); }
      auto open_paths = [&]() { PPaths pp; int np = (int)r.range(1, 3); for (int i = 0; i < np; ++i) { PPath p; int len = (int)r.range(2, 6); for (int k = 0; k < len; ++k) p.push_back(rnd_pt(r, f)); add_z(r, p, z); pp.push_back(p); } return pp; };
      { Op o = mkop("c_add", task); o.o = slot0; o.i = {1}; setP(o, 0, open_paths()); push(o); }
      if (r.chance(0.4)) { Op o = mkop("c_add", task); o.o = slot0; o.i = {0}; setP(o, 0, gen_paths(r, mc.mag, 2, 8, z, &f)); push(o); }
      { Op o = mkop("c_add", task); o.o = slot0; o.i = {2}; setP(o, 0, gen_paths(r, mc.mag, 3, 8, z, &f)); push(o); }
      int ne = (int)r.range(1, 2);
      for (int i = 0; i < ne; ++i) { Op o = mkop("c_exec", task); o.o = slot0; o.i = {(int64_t)r.range(1, 4), (int64_t)r.below(4), (int64_t)(r.chance(0.5) ? 1 : 3), (int64_t)r.below(2)}; push(o); }
      if (r.chance(0.7)) { Op d = mkop("del", task); d.o = slot0; push(d); }
      return 1; }
    default: {  // 15: container lifetimes: one container, two clippers, interleaved executes, both destruction orders
      MagClass mc = pick_mag(r, cfg, true); Frame f = make_frame(r, mc.mag);
      int k = slot0, c1 = slot0 + 1, c2 = slot0 + 2;
      Op n = mkop("new_cont", task); n.o = k; push(n);
      int na = (int)r.range(1, 3);
      for (int i = 0; i < na; ++i) { Op o = mkop("k_add", task); o.o = k; o.i = {(int64_t)r.below(2), (int64_t)(r.chance(0.2) ? 1 : 0)}; setP(o, 0, gen_paths(r, mc.mag, maxpaths, maxpts, z, &f)); push(o); }
      Op n1 = mkop("new_c64", task); n1.o = c1; push(n1); Op n2 = mkop("new_c64", task); n2.o = c2; push(n2);
      Op u1 = mkop("c_reuse", task); u1.o = c1; u1.o2 = k; push(u1);
      if (r.chance(0.5)) { Op o = mkop("c_add", task); o.o = c1; o.i = {2}; setP(o, 0, gen_paths(r, mc.mag, maxpaths, maxpts, z, &f)); push(o); }
      Op u2 = mkop("c_reuse", task); u2.o = c2; u2.o2 = k; push(u2);
      if (g_allow_dup_container && r.chance(0.012)) { Op u3 = mkop("c_reuse", task); u3.o = c2; u3.o2 = k; u3.i = {1}; push(u3); }   // the same container a second time
      for (int i = 0; i < 3; ++i) { Op o = mkop("c_exec", task); o.o = (i & 1) ? c2 : c1; o.i = {(int64_t)r.range(1, 4), (int64_t)r.below(4), (int64_t)r.below(4), 0}; push(o); }
      if (r.chance(0.5)) { Op o = mkop("clear", task); o.o = c1; push(o); Op o2 = mkop("clear", task); o2.o = c2; push(o2); Op o3 = mkop("clear", task); o3.o = k; push(o3); }
      if (r.chance(0.5)) { Op d = mkop("del", task); d.o = r.chance(0.5) ? c1 : c2; push(d); }
      return 3; }
  }
}
static const int N_ENTRY_KINDS = 17;

// ------------------------------------------------------------------ C10
Plan gen_c10(uint64_t seed, uint64_t run, const std::string& cfg) {
  Plan pl; pl.prop = "C10"; pl.cfg = cfg; pl.seed = seed; pl.run = run;
  uint64_t base = mix64(mix64(seed, tag64("C10")), run);
  Rng g(mix64(base, tag64("gen"))); Rng e(mix64(base, tag64("env")));
  pl.env = e.next() | 1;
  bool z = cfg.find('Z') != std::string::npos;
  g_allow_blow_up = cfg.find("62") != std::string::npos; g_allow_dup_container = cfg.empty() || cfg[0] != 'V';   // not in the memcheck builds: F9 crashes are plain SEGVs there and every one costs a valgrind start-up
  struct Reset { ~Reset() { g_allow_blow_up = false; g_allow_dup_container = false; } } reset_on_exit;
  int sz = (int)g.below(100);
  int maxpaths = sz < 60 ? 2 : (sz < 92 ? 4 : 8), maxpts = sz < 55 ? 6 : (sz < 88 ? 14 : (sz < 98 ? 40 : 100));
  // long paths (size thresholds inside the library: fixed-size scratch, "large input" fast paths): a few hundred points where
  // faults are enumerated, thousands in the workers that only run the fault-free phases (run indices from 10^9)
  { unsigned big = (unsigned)g.below(1000);
    bool slow = !cfg.empty() && cfg[0] == 'V';                   // under valgrind a 8000-point case takes minutes
    if (run >= 1000000000ull) { if (big < 3 && !slow) maxpts = 2000; else if (big < 12) maxpts = 400; }
    else if (big < 6) maxpts = 400;
    if (maxpts > 100) maxpaths = 2; }
  // very rarely, in the fault-free workers only: tens to hundreds of thousands of points (block / chunk / pool boundaries inside the
  // library), restricted to entry classes and shapes whose cost stays linear: boolean clipping of circles, rectangle clipping of a saw-tooth
  bool huge = run >= 1000000000ull && !(!cfg.empty() && cfg[0] == 'V') && g.below(1500) == 0;
  if (huge) { static const int hp[] = {30000, 120000, 330000}; maxpts = hp[g.below(3)]; maxpaths = 1; }
  if (g.chance(0.08)) {                                          // phase C: faults inside object histories
    Plan h = gen_c12_base(seed, run * 8 + 2 + g.below(6), cfg);
    h.prop = "C10"; h.check_model = 0; h.run = run; h.env = pl.env;
    if (h.ops.size() > 14) h.ops.resize(14);
    return h;
  }
  int kind = (int)(run % N_ENTRY_KINDS);                         // stratified: every entry class is visited
  if (huge) { static const int hk[] = {0, 3, 7, 7}; kind = hk[g.below(4)]; }
  int used = append_entry(g, pl, kind, 0, 0, cfg, z, maxpaths, maxpts, -1);
  if (huge) return pl;
  if (g.chance(0.15)) append_entry(g, pl, (int)g.below(N_ENTRY_KINDS), 0, used, cfg, z, 2, 8, -1);   // short histories (phase C)
  return pl;
}

// ------------------------------------------------------------------ C12
// far-apart layout for the alone-equivalence oracle: path k lives in cell k on the diagonal
static PPaths layout_cells(Rng& r, int npaths, int64_t cell, int64_t pitch, int& next_cell, int et, int sign, bool z) {
  PPaths out;
  for (int i = 0; i < npaths; ++i) {
    Frame f{cell / 2, cell / 2, cell / 2, 1};
    if (r.chance(0.3)) f.grid = std::max<int64_t>(1, cell / r.range(2, 6));
    static const int fams[] = {0, 0, 1, 2, 3, 4, 4, 5, 6};
    PPath p = gen_base(r, f, fams[r.below(9)], 10);
    if (r.chance(0.3)) decorate(r, p, 0, cell);
    for (PPt& q : p) { q.x = std::max<int64_t>(0, std::min(cell, q.x)); q.y = std::max<int64_t>(0, std::min(cell, q.y)); }
    if (et == 0) {  // Polygon group: every path has the call's orientation sign (Area<0 ?)
      double a = 0; size_t n = p.size();
      for (size_t k = 0; k < n; ++k) { const PPt& u = p[k]; const PPt& v = p[(k + 1) % n]; a += ((double)u.x * (double)v.y - (double)v.x * (double)u.y); }
      // Clipper's Area() has the opposite sign convention to the shoelace formula with y up; we only need consistency,
      // so compare through the same formula the library uses: sum (y_prev + y)(x_prev - x)
      double la = 0; for (size_t k = 0; k < n; ++k) { const PPt& pr = p[(k + n - 1) % n]; const PPt& cu = p[k]; la += (double)(pr.y + cu.y) * (double)(pr.x - cu.x); }
      la *= 0.5; (void)a;
      bool neg = la < 0;
      if (sign == 1 && !neg) { if (la > 0) std::reverse(p.begin(), p.end()); else { p = {{0, 0, 0}, {0, cell / 2 + 1, 0}, {cell / 2 + 1, 0, 0}}; // force a negative triangle
          double t = 0; for (size_t k = 0; k < 3; ++k) { const PPt& pr = p[(k + 2) % 3]; const PPt& cu = p[k]; t += (double)(pr.y + cu.y) * (double)(pr.x - cu.x); } if (t > 0) std::reverse(p.begin(), p.end()); } }
      else if (sign == 0 && neg) std::reverse(p.begin(), p.end());
    }
    int64_t off = (int64_t)next_cell * pitch; ++next_cell;
    for (PPt& q : p) { q.x += off; q.y += off; }
    add_z(r, p, z);
    out.push_back(p);
  }
  return out;
}

static void gen_offset_alone_history(Rng& g, Plan& pl, bool z) {
  int o = 0;
  static const double mls[] = {2.0, 2.0, 1.0, 3.0, 5.0};
  double miter = mls[g.below(5)];
  static const double arcs[] = {0, 0, 0.25, 1.0};
  double arc = arcs[g.below(4)];
  int64_t cell = g.chance(0.5) ? g.range(8, 60) : g.range(60, 1000);
  static const double dl[] = {0.6, 1, 2, 3, 5, 10, 25};
  double delta = dl[g.below(7)]; if (g.chance(0.4)) delta = -delta;
  int dcb = g.chance(0.2) ? (int)g.range(1, 6) : 0; double dbase = std::fabs(delta) + 1;
  double maxd = dcb ? dbase * 1.01 + 1 : std::fabs(delta);
  int64_t reach = (int64_t)std::ceil(maxd * std::max(miter, 2.0)) + 6;
  int64_t pitch = cell + 2 * reach + 8;
  int sign = g.chance(0.3) ? 1 : 0;
  Op n = mkop("new_off"); n.o = o; n.d = {miter, arc}; n.i = {(int64_t)g.below(2), (int64_t)g.below(2)}; pl.ops.push_back(n);
  if (dcb) { Op s = mkop("f_setdcb"); s.o = o; s.i = {dcb}; s.d = {dbase}; pl.ops.push_back(s); }
  if (z && g.chance(0.4)) { Op s = mkop("setz"); s.o = o; s.i = {(int64_t)g.range(1, 2)}; pl.ops.push_back(s); }
  int next_cell = 0; int rounds = (int)g.range(1, 2);
  for (int rd = 0; rd < rounds; ++rd) {
    int ng = (int)g.range(1, 4);
    for (int gi = 0; gi < ng; ++gi) {
      int et = g.chance(0.4) ? 0 : (int)g.range(1, 4); int jt = (int)g.below(4);
      int np = (int)g.range(1, 3);
      if (g.chance(0.06)) {                       // a group that holds nothing but an empty path
        Op a = mkop("f_addpaths"); a.o = o; a.i = {jt, et}; PPaths ep; ep.push_back(PPath()); setP(a, 0, ep); pl.ops.push_back(a);
        continue;
      }
      bool single = np == 1 && g.chance(0.4);
      Op a = mkop(single ? "f_addpath" : "f_addpaths"); a.o = o; a.i = {jt, et};
      setP(a, 0, layout_cells(g, np, cell, pitch, next_cell, et, sign, z)); pl.ops.push_back(a);
    }
    if (g.chance(0.2)) { Op s = mkop(g.chance(0.5) ? "pc" : "rs"); s.o = o; s.i = {(int64_t)g.below(2)}; pl.ops.push_back(s); }
    Op e = mkop("f_exec"); e.o = o; e.d = {delta}; e.i = {0, (int64_t)g.below(2), 1}; pl.ops.push_back(e);
    if (g.chance(0.3)) { Op e2 = mkop("f_exec"); e2.o = o; e2.d = {delta}; e2.i = {1, (int64_t)g.below(2), 1}; pl.ops.push_back(e2); }
    if (rd + 1 < rounds && g.chance(0.5)) { Op c = mkop("clear"); c.o = o; pl.ops.push_back(c); next_cell = 0; }
  }
}

// operation alphabets per object class (used for skeleton stratification)
enum { A_ADD_S, A_ADD_O, A_ADD_C, A_REUSE, A_PC, A_RS, A_EXEC_P, A_EXEC_T, A_CLEAR, A_SETZ, A_N };

static Plan gen_c12_base(uint64_t seed, uint64_t run, const std::string& cfg) {
  Plan pl; pl.prop = "C12"; pl.cfg = cfg; pl.seed = seed; pl.run = run; pl.check_model = 1;
  uint64_t base = mix64(mix64(seed, tag64("C12")), run);
  Rng g(mix64(base, tag64("gen"))); Rng e(mix64(base, tag64("env")));
  pl.env = e.next() | 1;
  bool z = cfg.find('Z') != std::string::npos;
  int mode = (int)(run % 8);
  if (mode == 0 || mode == 1) { gen_offset_alone_history(g, pl, z); return pl; }
  static const int shs[] = {3, 4, 6, 8, 10, 14, 20};
  static const int shs_big[] = {24, 26, 26, 27, 28, 29, 30, 40};   // mostly below 2^32: beyond it slivers run into the known finding C10-F7 (TopX) all the time    // builds without the strict signed-overflow check: state that depends on the coordinate range
  bool bigmag = cfg.find("62") != std::string::npos;
  int64_t mag = (int64_t)1 << (bigmag ? shs_big[g.below(8)] : shs[g.below(7)]);
  Frame f = make_frame(g, mag);
  int maxpaths = 3, maxpts = g.chance(0.8) ? 8 : 16;
  // now and then a larger rectilinear input (many horizontal edges starting at the same x, many coincident edges):
  // scratch containers kept by an object grow past their small-size regimes
  auto grid = [&]() {
    PPaths pp; int cols = (int)g.range(2, g.chance(0.3) ? 14 : 5), rows = (int)g.range(3, 9); int64_t w = g.range(2, 9), h = g.range(1, 5), gx = g.chance(0.5) ? 0 : g.range(0, 3);
    for (int rr = 0; rr < rows; ++rr) for (int cc = 0; cc < cols; ++cc) { if (g.chance(0.15)) continue; int64_t x = cc * (w + gx), y = rr * h * (g.chance(0.8) ? 1 : 2);
      PPath p = {{x, y, 0}, {x + w, y, 0}, {x + w, y + h, 0}, {x, y + h, 0}}; if (g.chance(0.3)) std::reverse(p.begin(), p.end()); add_z(g, p, z); pp.push_back(p); }
    return pp;
  };
  auto P = [&]() { if (g.chance(0.07)) return grid(); return gen_paths(g, mag, maxpaths, maxpts, z, g.chance(0.85) ? &f : nullptr); };
  if (mode == 2 || mode == 3 || mode == 4) {
    // clipper histories: one or two Clipper64 (or a ClipperD), up to two containers
    bool useD = mode == 4 && g.chance(0.6);
    int prec = (int)g.range(-2, 4);
    if (g.chance(0.08)) {
      // the very same Execute three to five times on one clipper (polytree output mostly), on input whose result has splits,
      // touching outlines and holes: what an execution leaves behind must not reach the one after the next either
      Op n = mkop(useD ? "new_cd" : "new_c64"); n.o = 0; if (useD) n.i = {prec}; pl.ops.push_back(n);
      auto splitty = [&]() { PPaths pp; int np = (int)g.range(1, 3); static const int sf[] = {7, 7, 6, 6, 0, 2};
        for (int i = 0; i < np; ++i) { PPath q = gen_base(g, f, sf[g.below(6)], 14); if (g.chance(0.4)) decorate(g, q, -mag, mag); add_z(g, q, z); pp.push_back(q); }
        if (g.chance(0.3)) { PPaths gr = grid(); pp.insert(pp.end(), gr.begin(), gr.end()); }
        return pp; };
      int na = (int)g.range(1, 3);
      for (int i = 0; i < na; ++i) { Op a = mkop("c_add"); a.o = 0; a.i = {(int64_t)(i == 0 ? 0 : 2 * g.below(2))}; if (useD) setD(a, 0, to_d(splitty(), std::pow(10.0, std::max(0, prec)), g, true)); else setP(a, 0, splitty()); pl.ops.push_back(a); }
      if (g.chance(0.5)) { Op o = mkop("pc"); o.o = 0; o.i = {(int64_t)g.below(2)}; pl.ops.push_back(o); }
      Op e = mkop("c_exec"); e.o = 0; e.i = {(int64_t)g.range(1, 4), (int64_t)g.below(4), (int64_t)(g.chance(0.8) ? 2 + g.below(2) : g.below(2)), (int64_t)g.below(2)};
      int reps = (int)g.range(3, 5);
      for (int i = 0; i < reps; ++i) { pl.ops.push_back(e); if (g.chance(0.15)) { Op x = e; x.i[0] = g.range(1, 4); x.i[2] = g.below(4); pl.ops.push_back(x); } }
      return pl;
    }
    if (!useD && g.chance(0.07)) {
      // container life cycle: fill, use, Clear(), refill with a rearranged copy of the same paths (same number of local
      // minima, another insertion order and other positions), use again - by the same or by another clipper that holds
      // nothing but the container
      PPaths p1 = P(); if (p1.size() < 2) { PPaths more = P(); p1.insert(p1.end(), more.begin(), more.end()); }
      PPaths p2 = p1;
      int how = (int)g.below(4);
      if (how == 0 || how == 3) std::reverse(p2.begin(), p2.end());
      if (how == 1 || how == 3) for (size_t i = 0; i < p2.size(); ++i) { int64_t dy = (int64_t)(p2.size() - i) * g.range(1, 40), dx = g.range(-20, 20); for (PPt& q : p2[i]) { q.x += dx; q.y += dy; } }
      if (how == 2) { for (PPath& q : p2) for (PPt& c : q) c.y = -c.y; std::reverse(p2.begin(), p2.end()); }
      Op nk = mkop("new_cont"); nk.o = 4; pl.ops.push_back(nk);
      Op a1 = mkop("k_add"); a1.o = 4; a1.i = {0, 0}; setP(a1, 0, p1); pl.ops.push_back(a1);
      Op n0 = mkop("new_c64"); n0.o = 0; pl.ops.push_back(n0);
      if (g.chance(0.3)) { Op o = mkop("c_add"); o.o = 0; o.i = {(int64_t)g.below(3)}; setP(o, 0, P()); pl.ops.push_back(o); }
      Op r0 = mkop("c_reuse"); r0.o = 0; r0.o2 = 4; pl.ops.push_back(r0);
      int ne = (int)g.range(0, 2);
      for (int i = 0; i < ne; ++i) { Op o = mkop("c_exec"); o.o = 0; o.i = {(int64_t)g.range(1, 4), (int64_t)g.below(4), (int64_t)g.below(4), (int64_t)g.below(2)}; pl.ops.push_back(o); }
      Op c0 = mkop("clear"); c0.o = 0; pl.ops.push_back(c0);
      Op ck = mkop("clear"); ck.o = 4; pl.ops.push_back(ck);
      Op a2 = mkop("k_add"); a2.o = 4; a2.i = {0, 0}; setP(a2, 0, p2); pl.ops.push_back(a2);
      int user = 0;
      if (g.chance(0.5)) { Op n1 = mkop("new_c64"); n1.o = 1; pl.ops.push_back(n1); user = 1; }
      if (g.chance(0.2)) { Op o = mkop("c_add"); o.o = user; o.i = {(int64_t)(1 + g.below(2))}; setP(o, 0, P()); pl.ops.push_back(o); }
      Op r1 = mkop("c_reuse"); r1.o = user; r1.o2 = 4; pl.ops.push_back(r1);
      for (int i = 0; i < 2; ++i) { Op o = mkop("c_exec"); o.o = user; o.i = {(int64_t)g.range(1, 4), (int64_t)g.below(4), (int64_t)g.below(4), (int64_t)g.below(2)}; pl.ops.push_back(o); }
      return pl;
    }
    int nclip = useD ? 1 : (int)g.range(1, 2), ncont = useD ? (int)g.range(0, 1) : (int)g.range(0, 2);
    for (int i = 0; i < nclip; ++i) { Op n = mkop(useD ? "new_cd" : "new_c64"); n.o = i; if (useD) n.i = {prec}; pl.ops.push_back(n); }
    for (int i = 0; i < ncont; ++i) { Op n = mkop("new_cont"); n.o = 4 + i; pl.ops.push_back(n); Op a = mkop("k_add"); a.o = 4 + i; a.i = {(int64_t)g.below(2), (int64_t)(g.chance(0.15) ? 1 : 0)}; setP(a, 0, P()); pl.ops.push_back(a); }
    int len = (int)g.range(3, 14);
    // skeleton: the first up-to-4 operation kinds are enumerated systematically from the run index
    uint64_t sk = run / 8; int sklen = 1 + (int)(sk % 4); sk /= 4;
    int nexec = 0;
    for (int s = 0; s < len; ++s) {
      int kind;
      if (s < sklen) { kind = (int)(sk % A_N); sk /= A_N; }
      else { static const int w[] = {A_ADD_S, A_ADD_S, A_ADD_C, A_ADD_C, A_ADD_O, A_REUSE, A_PC, A_RS, A_EXEC_P, A_EXEC_P, A_EXEC_T, A_EXEC_T, A_CLEAR, A_SETZ}; kind = w[g.below(sizeof(w) / sizeof(int))]; }
      int c = (int)g.below(nclip);
      Op o;
      switch (kind) {
        case A_ADD_S: case A_ADD_O: case A_ADD_C: o = mkop("c_add"); o.o = c; o.i = {(int64_t)(kind - A_ADD_S)};
          if (useD && g.chance(0.08)) { PPathsD big; big.push_back(PPathD{{1e17, 0, 0}, {1e17, 5, 0}, {-3, 7, 0}}); setD(o, 0, big); }   // out of range: rejected, error flag set
          else if (useD) setD(o, 0, to_d(P(), std::pow(10.0, std::max(0, prec)), g, true)); else setP(o, 0, P()); break;
        case A_REUSE: if (ncont == 0) { o = mkop("c_add"); o.o = c; o.i = {2}; if (useD) setD(o, 0, to_d(P(), std::pow(10.0, std::max(0, prec)), g, true)); else setP(o, 0, P()); }
                      else if (g.chance(0.3)) { o = mkop("k_add"); o.o = 4 + (int)g.below(ncont); o.i = {(int64_t)g.below(2), 0}; setP(o, 0, P()); }
                      else { o = mkop("c_reuse"); o.o = c; o.o2 = 4 + (int)g.below(ncont); } break;
        case A_PC: o = mkop("pc"); o.o = c; o.i = {(int64_t)g.below(2)}; break;
        case A_RS: o = mkop("rs"); o.o = c; o.i = {(int64_t)g.below(2)}; break;
        case A_EXEC_P: case A_EXEC_T: o = mkop("c_exec"); o.o = c; o.i = {(int64_t)g.range(1, 4), (int64_t)g.below(4), (int64_t)((kind == A_EXEC_P ? 0 : 2) + g.below(2)), (int64_t)g.below(2)}; if (g.chance(0.03)) o.i[0] = 0; ++nexec; break;
        case A_CLEAR: if (g.chance(0.25) && ncont) { o = mkop("clear"); o.o = 4 + (int)g.below(ncont); } else { o = mkop("clear"); o.o = c; } break;
        default: if (z) { o = mkop(g.chance(0.7) ? "setz" : "defz"); o.o = c; o.i = {(int64_t)g.below(3)}; } else { o = mkop("rs"); o.o = c; o.i = {(int64_t)g.below(2)}; } break;
      }
      pl.ops.push_back(o);
    }
    if (nexec == 0 || g.chance(0.5)) { Op o = mkop("c_exec"); o.o = (int)g.below(nclip); o.i = {(int64_t)g.range(1, 4), (int64_t)g.below(4), (int64_t)g.below(4), (int64_t)g.below(2)}; pl.ops.push_back(o); }
    return pl;
  }
  if (mode == 5 || mode == 6) {
    // offset histories (no layout constraint): options, groups, repeated executes, clear
    int64_t ext = std::min<int64_t>(2000, std::max<int64_t>(4, f.ext));   // keeps the number of arc vertices executable (domain restriction, DESIGN 3.1.1)
    static const double dl[] = {0.4, 0.6, 1, 2, 3.5, 8};
    double lastD = 0; bool haveD = false;                      // repeated Executes with the very same delta are common in real use
    auto D = [&]() { if (haveD && g.chance(0.55)) return lastD; double d = g.chance(0.6) ? dl[g.below(6)] : (double)ext * (0.05 + g.unit()); lastD = g.chance(0.4) ? -d : d; haveD = true; return lastD; };
    Op n = mkop("new_off"); n.o = 0; n.d = {g.chance(0.6) ? 2.0 : 1.0 + g.unit() * 4, g.chance(0.6) ? 0.0 : 0.25}; n.i = {(int64_t)g.below(2), (int64_t)g.below(2)}; pl.ops.push_back(n);
    int len = (int)g.range(3, 12); int nexec = 0; bool have_copy = false;
    uint64_t sk = run / 8; int sklen = 1 + (int)(sk % 4); sk /= 4;
    for (int s = 0; s < len; ++s) {
      int kind = s < sklen ? (int)(sk % 10) : (int)g.below(12); if (s < sklen) sk /= 10;
      Op o;
      switch (kind) {
        case 0: case 1: case 10: o = mkop("f_addpaths"); o.o = 0; o.i = {(int64_t)g.below(4), (int64_t)g.below(5)}; setP(o, 0, P()); break;
        case 2: { o = mkop("f_addpath"); o.o = 0; o.i = {(int64_t)g.below(4), (int64_t)g.below(5)}; PPaths pp = P(); if (pp.empty()) pp.push_back(PPath()); setP(o, 0, pp); break; }
        case 3: o = mkop("clear"); o.o = 0; break;
        case 4: o = mkop(g.chance(0.5) ? "f_miter" : "f_arc"); o.o = 0; o.d = {g.chance(0.5) ? 2.0 : g.unit() * 3}; break;
        case 5: if (z && g.chance(0.4)) { o = mkop("setz"); o.o = 0; o.i = {(int64_t)g.below(3)}; } else { o = mkop(g.chance(0.5) ? "pc" : "rs"); o.o = 0; o.i = {(int64_t)g.below(2)}; } break;
        case 6: o = mkop("f_setdcb"); o.o = 0; o.i = {(int64_t)g.below(7)}; o.d = {std::fabs(D()) + 1}; break;
        case 7: o = mkop("f_execcb"); o.o = 0; o.i = {(int64_t)g.below(6), (int64_t)g.below(2), 0}; o.d = {std::fabs(D()) + 1}; ++nexec; break;
        case 8: case 11: o = mkop("f_exec"); o.o = 0; o.d = {D()}; o.i = {0, (int64_t)g.below(2), 0}; ++nexec; break;
        default: o = mkop("f_exec"); o.o = 0; o.d = {D()}; o.i = {1, (int64_t)g.below(2), 0}; ++nexec; break;
      }
      if (have_copy && g.chance(0.4)) o.o = 1;                 // after the copy, operations go to either object
      pl.ops.push_back(o);
      if (!have_copy && s >= 1 && g.chance(0.06)) { Op k = mkop("copy"); k.o = 0; k.o2 = 1; k.i = {0}; pl.ops.push_back(k); have_copy = true; }
      else if (have_copy && g.chance(0.05)) { Op k = mkop("copy"); k.o = (int)g.below(2); k.o2 = 1 - k.o; k.i = {1}; pl.ops.push_back(k); }
    }
    if (nexec == 0) { Op o = mkop("f_exec"); o.o = 0; o.d = {D()}; o.i = {(int64_t)g.below(2), 0, 0}; pl.ops.push_back(o); }
    // keep the number of arc vertices executable (domain restriction, DESIGN 3.1.1): with every path of the history added and
    // the finest arc tolerance it ever sets, no Execute may produce more than ~30000 arc vertices (they all overlap when the
    // offset is much larger than the shapes, and the sweep of the finishing union is quadratic in that case)
    {
      double nv = 0, arc_min = 1e300; bool arc_default = false;
      for (const Op& o : pl.ops) {
        if (o.kind == "f_addpaths" || o.kind == "f_addpath") for (const PPath& q : o.P[0]) nv += (double)q.size();
        if (o.kind == "new_off") { double a = o.d.size() > 1 ? o.d[1] : 0; if (a > 0) arc_min = std::min(arc_min, a); else arc_default = true; }
        if (o.kind == "f_arc") { double a = o.d.empty() ? 0 : o.d[0]; if (a > 0) arc_min = std::min(arc_min, a); else arc_default = true; }
      }
      nv = std::max(nv, 1.0);
      auto steps360 = [&](double ad) {
        double st = 0;
        if (arc_default && ad > 0) st = std::max(st, std::min(3.14159265358979 / std::acos(1 - 0.002), ad * 3.14159265358979));
        if (arc_min < 1e299 && ad > 0) { double tol = std::min(ad, arc_min); st = std::max(st, std::min(3.14159265358979 / std::acos(1 - tol / ad), ad * 3.14159265358979)); }
        return st;
      };
      for (Op& o : pl.ops) if ((o.kind == "f_exec" || o.kind == "f_execcb" || o.kind == "f_setdcb") && !o.d.empty()) {
        double ad = std::fabs(o.d[0]); int guard = 0;
        while (ad > 1 && nv * steps360(ad) > 30000.0 && guard++ < 60) ad *= 0.7;
        if (ad != std::fabs(o.d[0])) o.d[0] = o.d[0] < 0 ? -ad : ad;
      }
    }
    return pl;
  }
  // mode 7: rect clip objects: repeated executes on one object, many paths per call
  {
    PPt a = rnd_pt(g, f), b = rnd_pt(g, f);
    int64_t l = std::min(a.x, b.x), rr = std::max(a.x, b.x), t = std::min(a.y, b.y), bb = std::max(a.y, b.y);
    if (rr == l) rr = l + 1 + (int64_t)g.below(8); if (bb == t) bb = t + 1 + (int64_t)g.below(8);
    Op n = mkop(g.chance(0.6) ? "new_rc" : "new_rcl"); n.o = 0; n.i = {l, t, rr, bb}; pl.ops.push_back(n);
    int ne = (int)g.range(2, 5); bool rect_copy = false;
    for (int i = 0; i < ne; ++i) {
      Op o = mkop("r_exec"); o.o = 0; PPaths pp = gen_paths(g, mag, 5, maxpts, z, &f);
      int extra = (int)g.below(3);
      for (int k = 0; k < extra; ++k) {
        PPath s; int64_t cx = l + (rr - l) / 2, cy = t + (bb - t) / 2; double hw = (double)(rr - l) / 2 + 1, hh = (double)(bb - t) / 2 + 1;
        if (g.chance(0.5)) {          // dense star through the rectangle
          int n = 5 + 2 * (int)g.below(4), kk = n / 2; double rad = std::max(hw, hh) * (1.5 + g.unit() * 5) + 2, ph = g.unit() * 6.28318530717958647692;
          for (int q = 0; q < n; ++q) { double a = ph + 6.28318530717958647692 * (double)((q * kk) % n) / n; s.push_back({cx + (int64_t)std::llround(rad * std::cos(a)), cy + (int64_t)std::llround(rad * std::sin(a)), 0}); }
        } else {                      // a path that fully contains the rectangle
          int64_t m = (int64_t)(std::max(hw, hh) * (1.2 + g.unit() * 2)) + 2;
          s = {{cx - m, cy - m, 0}, {cx + m, cy - m, 0}, {cx + m, cy + m, 0}, {cx - m, cy + m, 0}}; if (g.chance(0.5)) std::reverse(s.begin(), s.end());
        }
        add_z(g, s, z); pp.insert(pp.begin() + (long)g.below(pp.size() + 1), s);
      }
      if (rect_copy && g.chance(0.5)) o.o = 1;
      setP(o, 0, pp); pl.ops.push_back(o);
      if (!rect_copy && g.chance(0.1)) { Op k = mkop("copy"); k.o = 0; k.o2 = 1; k.i = {0}; pl.ops.push_back(k); rect_copy = true; }
    }
  }
  return pl;
}

// Fault histories (about one history in seven): one operation ends with an exception - an allocation fails, or the caller's
// own callback throws - then the object is cleared and used again.
Plan gen_c12(uint64_t seed, uint64_t run, const std::string& cfg) {
  Plan pl = gen_c12_base(seed, run, cfg);
  Rng g(mix64(mix64(mix64(seed, tag64("C12")), run), tag64("fault-history")));
  if (!g.chance(0.15)) return pl;
  static const char* kinds[] = {"c_add", "c_reuse", "c_exec", "k_add", "f_addpaths", "f_addpath", "f_exec", "f_execcb", "r_exec"};
  std::vector<int> cand;
  for (size_t i = 0; i < pl.ops.size(); ++i) for (const char* k : kinds) if (pl.ops[i].kind == k) cand.push_back((int)i);
  if (cand.empty()) return pl;
  int K = cand[g.below(cand.size())];
  const Op faulting = pl.ops[(size_t)K];
  Fault ft; ft.op = K; ft.alloc = (int64_t)g.below(64); ft.kind = g.chance(0.25) ? 2 : 0;
  pl.faults.push_back(ft);
  bool is_rect = faulting.kind == "r_exec";
  std::vector<Op> tail;
  if (!is_rect && g.chance(0.85)) { Op c = faulting; c = Op(); c.kind = "clear"; c.task = faulting.task; c.o = faulting.o; tail.push_back(c); }
  if (!is_rect && g.chance(0.6)) {
    // use the object again: replay an earlier add on it (or the faulting one) and execute
    const Op* add = nullptr; const Op* ex = nullptr;
    for (const Op& o : pl.ops) if (o.o == faulting.o && o.task == faulting.task) {
      if (o.kind == "c_add" || o.kind == "f_addpaths" || o.kind == "f_addpath" || o.kind == "k_add") add = &o;
      if (o.kind == "c_exec" || o.kind == "f_exec" || o.kind == "f_execcb") ex = &o;
    }
    if (add) tail.push_back(*add);
    if (ex) tail.push_back(*ex);
  }
  pl.ops.insert(pl.ops.begin() + K + 1, tail.begin(), tail.end());
  return pl;
}

// ------------------------------------------------------------------ C14
Plan gen_c14(uint64_t seed, uint64_t run, const std::string& cfg) {
  Plan pl; pl.prop = "C14"; pl.cfg = cfg; pl.seed = seed; pl.run = run;
  uint64_t base = mix64(mix64(seed, tag64("C14")), run);
  Rng g(mix64(base, tag64("gen"))); Rng e(mix64(base, tag64("env"))); Rng s(mix64(base, tag64("sched"))); Rng fr(mix64(base, tag64("fault")));
  pl.env = e.next() | 1; pl.sched_seed = s.next() | 1;
  bool z = cfg.find('Z') != std::string::npos;
  int nt = (int)g.range(2, run % 50 == 7 ? 12 : (run % 5 == 0 ? 6 : 4)); pl.ntasks = nt;
  int shared = -1;
  if (g.chance(0.5)) {
    shared = 100;
    Op n = mkop("new_cont", -1); n.o = 100; pl.ops.push_back(n);
    int64_t mag = (int64_t)1 << (int)g.range(4, 20); Frame f = make_frame(g, mag);
    int na = (int)g.range(1, 2);
    int cpts = g.chance(0.06) ? (g.chance(0.6) ? 600 : 1600) : 10;      // now and then a shared container with hundreds of local minima
    for (int i = 0; i < na; ++i) { Op a = mkop("k_add", -1); a.o = 100; a.i = {(int64_t)g.below(2), 0}; setP(a, 0, gen_paths(g, mag, cpts > 10 ? 1 : 3, cpts, z, &f)); pl.ops.push_back(a); }
  }
  // co-location: with probability 1/2 all tasks run the same entry class (same library functions in flight)
  int common = g.chance(0.5) ? (int)g.below(N_ENTRY_KINDS) : -1;
  for (int t = 0; t < nt; ++t) {
    int nops = (int)g.range(1, 3); int slot = 0;
    for (int k = 0; k < nops; ++k) {
      int kind = common >= 0 && g.chance(0.8) ? common : (int)g.below(N_ENTRY_KINDS);
      if (shared >= 0 && g.chance(0.4)) kind = (int)g.below(2);
      bool big = g.chance(0.05) && !(cfg[0] == 'T' && (kind == 8 || kind == 14));   // (a large Minkowski sum takes a minute under TSan)
      int bigpts = 120; if (big && g.chance(0.12)) bigpts = (g.chance(0.75) || cfg[0] == 'T') ? 1500 : 3500;     // (TSan builds: a 3500-point case takes tens of seconds)
      // builds without UBSan (P*, T*) also get tasks with huge coordinates (boolean clipping only): state that the library
      // writes only for extreme input is then written while other tasks are in flight
      bool huge = (cfg[0] == 'P' || cfg[0] == 'T') && (kind <= 1 || kind == 3 || kind == 11 || kind == 16) && g.chance(0.15);
      slot += append_entry(g, pl, kind, t, slot, huge ? "A62" : "A", z, big && bigpts > 120 ? 2 : 3, big ? bigpts : 12, shared);
      if (slot > 12) break;
    }
  }
  // hand-over: objects that the set-up thread creates and fills, and that exactly one task then executes, clears or destroys
  // (the usual way of feeding a thread pool; whatever the library keeps per thread must not care which thread built an object)
  if (g.chance(0.3)) {
    int nh = (int)g.range(1, std::min(3, nt)); std::vector<Op> setup;
    int64_t mag = (int64_t)1 << (int)g.range(4, 20); Frame f = make_frame(g, mag);
    for (int i = 0; i < nh; ++i) {
      int slot = 101 + i; int w = (int)g.below(4);
      if (w < 2) {
        Op n = mkop(w == 0 ? "new_c64" : "new_cd", -1); n.o = slot; if (w == 1) n.i = {(int64_t)g.range(-2, 4)}; setup.push_back(n);
        int na = (int)g.range(1, 3);
        for (int k = 0; k < na; ++k) { Op a = mkop("c_add", -1); a.o = slot; a.i = {(int64_t)(k == 0 ? 0 : g.below(3))};
          if (w == 0) setP(a, 0, gen_paths(g, mag, 3, g.chance(0.1) ? 200 : 12, z, &f)); else setD(a, 0, to_d(gen_paths(g, mag, 3, 12, z, &f), std::pow(10.0, (double)std::max<int64_t>(0, n.i[0])), g, true));
          setup.push_back(a); }
        if (shared >= 0 && g.chance(0.4)) { Op u = mkop("c_reuse", -1); u.o = slot; u.o2 = shared; setup.push_back(u); }
        for (int k = 0, ne = (int)g.range(1, 2); k < ne; ++k) { Op e = mkop("c_exec", i); e.o = slot; e.i = {(int64_t)g.range(1, 4), (int64_t)g.below(4), (int64_t)g.below(4), (int64_t)g.below(2)}; pl.ops.push_back(e); }
      } else if (w == 2) {
        Op n = mkop("new_off", -1); n.o = slot; n.d = {2.0, 0.0}; n.i = {0, 0}; setup.push_back(n);
        Op a = mkop("f_addpaths", -1); a.o = slot; a.i = {(int64_t)g.below(4), (int64_t)g.below(5)}; PPaths pp = gen_paths(g, mag, 3, 12, z, &f); setP(a, 0, pp); setup.push_back(a);
        double delta, miter, arc; pick_offset_params(g, extent_of(pp), count_pts(pp), delta, miter, arc, mag, long_path_spacing(pp));
        Op e = mkop("f_exec", i); e.o = slot; e.d = {delta}; e.i = {(int64_t)g.below(2), (int64_t)g.below(2), 0}; pl.ops.push_back(e);
      } else {
        PPt a = rnd_pt(g, f), b = rnd_pt(g, f); int64_t l = std::min(a.x, b.x), rr = std::max(a.x, b.x), t = std::min(a.y, b.y), bb = std::max(a.y, b.y); if (rr == l) ++rr; if (bb == t) ++bb;
        Op n = mkop(g.chance(0.5) ? "new_rc" : "new_rcl", -1); n.o = slot; n.i = {l, t, rr, bb}; setup.push_back(n);
        Op e = mkop("r_exec", i); e.o = slot; setP(e, 0, gen_paths(g, mag, 4, 12, z, &f)); pl.ops.push_back(e);
      }
      if (g.chance(0.5)) { Op c = mkop(g.chance(0.5) ? "clear" : "del", i); c.o = slot; pl.ops.push_back(c); }
    }
    // the set-up operations go behind the set-up of the shared container and in front of everything a task does
    size_t at = 0; while (at < pl.ops.size() && pl.ops[at].task == -1) ++at;
    pl.ops.insert(pl.ops.begin() + (long)at, setup.begin(), setup.end());
  }
  // optional fault: one task gets a throwing allocation failure in one of its ops (resolved modulo the op's count at run time)
  if (fr.chance(0.3)) {
    std::vector<int> cand; for (size_t i = 0; i < pl.ops.size(); ++i) if (pl.ops[i].task >= 0) cand.push_back((int)i);
    if (!cand.empty()) { Fault ft; ft.op = cand[fr.below(cand.size())]; ft.alloc = (int64_t)fr.below(64); ft.kind = 0; pl.faults.push_back(ft); }
  }
  return pl;
}

} // namespace sim
