// Simulator runtime. Compiled WITHOUT -fsanitize-coverage and WITHOUT -fsanitize=thread
// (the scheduler must stay invisible to TSan), with -fno-builtin (no libc memset interception).
#if defined(__has_include)
#if __has_include(<valgrind/memcheck.h>)
#include <valgrind/memcheck.h>     // client requests are a few no-op instructions outside valgrind
#define SIM_MEM_UNDEFINED(p, n) VALGRIND_MAKE_MEM_UNDEFINED(p, n)
#endif
#endif
#ifndef SIM_MEM_UNDEFINED
#define SIM_MEM_UNDEFINED(p, n) ((void)0)
#endif
#include "rt.h"
#include <atomic>
#include <cstdarg>
#include <cstdio>
#include <cstdlib>
#include <cstring>
#include <new>
#include <link.h>
#include <linux/futex.h>
#include <pthread.h>
#include <sys/mman.h>
#include <sys/syscall.h>
#include <fcntl.h>
#include <unistd.h>

extern "C" void __asan_poison_memory_region(void const volatile*, size_t) __attribute__((weak));
extern "C" void __asan_unpoison_memory_region(void const volatile*, size_t) __attribute__((weak));
extern "C" void __tsan_init() __attribute__((weak));
extern "C" int __cxa_guard_acquire(void*);
extern "C" void __cxa_guard_release(void*);
extern "C" void __cxa_guard_abort(void*);

namespace sim {

// ------------------------------------------------------------------ globals
static TaskCtx g_main_ctx;
static thread_local TaskCtx* tl_cur = nullptr;
static AllocStats g_as;
static int64_t g_as_base_bytes = 0;   // live bytes when the current execution started (blocks leaked by earlier fault runs stay counted as live)
static uint64_t* g_status = nullptr;
static uint64_t g_status_dummy[8];
static uint32_t g_nguards = 0;
static unsigned char* g_hits = nullptr;
static uint32_t* g_counts = nullptr;   // debugging aid (SIM_GUARD_COUNTS): per-guard execution counts
static const uintptr_t* g_pcs_beg = nullptr; static const uintptr_t* g_pcs_end = nullptr;
static std::atomic<uint64_t> g_steps_retired{0};

static const int64_t MAX_REQUEST = 256ll << 20;
static const int64_t MAX_LIVE = 1ll << 30;

[[noreturn]] void rt_die(int code, const char* fmt, ...) {
  char buf[512];
  va_list ap; va_start(ap, fmt); vsnprintf(buf, sizeof buf, fmt, ap); va_end(ap);
  fprintf(stderr, "\nSIMDIE code=%d %s\n", code, buf);
  fflush(stderr); fflush(stdout);
  _exit(code);
}

extern "C" TaskCtx* sim_cur() { TaskCtx* t = tl_cur; return t ? t : &g_main_ctx; }

extern "C" void sim_status_run(uint64_t a, uint64_t b, uint64_t c, uint64_t d) {
  uint64_t* s = g_status ? g_status : g_status_dummy;
  s[0] = a; s[1] = b; s[2] = c; s[3] = d; s[4] = ~0ull; s[5] = 0;
}
extern "C" void sim_status_op(uint64_t op) { (g_status ? g_status : g_status_dummy)[4] = op; }
extern "C" void sim_status_flag(uint64_t f) { (g_status ? g_status : g_status_dummy)[5] |= f; }
extern "C" void sim_limit_op_budget(uint64_t edges) { TaskCtx* t = sim_cur(); if (t->steps + edges < t->budget) { t->budget = t->steps + edges; if (t->step_limit > t->budget) t->step_limit = t->budget; } }

extern "C" void sim_scope_enter(int op) {
  TaskCtx* t = sim_cur();
  if (t->scope++ == 0 && t->op != op) { t->op = op; t->op_allocs = 0; t->op_nt_allocs = 0; t->op_cbs = 0; }
}
extern "C" int sim_cb_fault() {
  TaskCtx* t = sim_cur();
  if (t->scope <= 0) return 0;                 // the reference model's callbacks are never faulted
  int64_t idx = t->op_cbs++;
  if (t->op == t->fault_op && t->fault_kind == 2 && !t->fault_fired && idx == t->fault_alloc) { t->fault_fired = true; t->fault_guard = t->last_guard; return 1; }
  return 0;
}
extern "C" void sim_scope_leave() {
  TaskCtx* t = sim_cur();
  if (t->scope > 0) --t->scope;
}

// ------------------------------------------------------------------ allocator seam (S1)
struct Hdr { uint64_t size; uint32_t magic; uint8_t kind; uint8_t inscope; uint16_t off; uint64_t pad[2]; };
static_assert(sizeof(Hdr) == 32, "hdr");
static const uint32_t MAGIC = 0xC1195E2Au;

static uint64_t g_env = 1;
static unsigned char g_fill = 0xA5, g_free_fill = 0x5A;
static const int DEFER_MAX = 64;
static void* g_defer[DEFER_MAX]; static int g_defer_n = 0, g_defer_cap = 0, g_defer_pos = 0;
static void* g_spacers[64]; static int g_spacer_n = 0;

static inline void fill_bytes(void* p, unsigned char b, size_t n) {
  unsigned char* q = (unsigned char*)p;
  uint64_t w = 0x0101010101010101ull * b;
  while (n >= 8) { *(volatile uint64_t*)q = w; q += 8; n -= 8; }
  while (n) { *(volatile unsigned char*)q = b; ++q; --n; }
}

static inline void hdr_poison(void* base, size_t n) { if (__asan_poison_memory_region) __asan_poison_memory_region(base, n); }
static inline void hdr_unpoison(void* base, size_t n) { if (__asan_unpoison_memory_region) __asan_unpoison_memory_region(base, n); }

// ---- seeded arena for in-scope (library) allocations -------------------------------------------------------
// Every execution starts from the same empty arena, so the heap layout the library sees (relative addresses, address
// order, reuse pattern) is a pure function of (allocator key, allocation sequence) and not of what the process did
// before: results that depend on pointer values reproduce in a fresh process, and twin executions under different keys
// see different address orders. Under ASan everything but live user bytes stays poisoned (header, tail redzone, free
// slots), so overflows and use-after-free inside the arena are still reported. Not used under TSan.
static const int NCLS = 34;
static size_t g_cls_size[NCLS];
static char* g_ar_base = nullptr; static const size_t AR_CAP = 3ull << 30;
static size_t g_ar_bump = 0, g_ar_hw = 0, g_ar_start = 0;
static uint32_t g_fl_head[NCLS], g_fl_tail[NCLS], g_fl_len[NCLS], g_fl_pre[NCLS];   // offsets / 16; 0 = empty
static bool g_ar_lifo = false; static uint32_t g_ar_quarantine = 0;
static int64_t g_ar_live = 0; static bool g_ar_force_rewind = false;
static size_t g_ar_floor = 0; static int64_t g_ar_preserved = 0;   // blocks below the floor survived a fault-free execution: never recycled
static bool g_ar_enabled = false;

static inline Hdr* ar_hdr(uint32_t off16) { return (Hdr*)(g_ar_base + (size_t)off16 * 16); }
static int cls_of(size_t need) { for (int c = 0; c < NCLS; ++c) if (g_cls_size[c] >= need) return c; return -1; }
static void fl_push(int c, uint32_t off16, bool front) {
  Hdr* h = ar_hdr(off16); h->pad[0] = 0;
  if (!g_fl_head[c]) { g_fl_head[c] = g_fl_tail[c] = off16; }
  else if (front) { h->pad[0] = g_fl_head[c]; g_fl_head[c] = off16; }
  else { ar_hdr(g_fl_tail[c])->pad[0] = off16; g_fl_tail[c] = off16; }
  ++g_fl_len[c];
}
static uint32_t fl_pop(int c) {
  uint32_t o = g_fl_head[c]; if (!o) return 0;
  g_fl_head[c] = (uint32_t)ar_hdr(o)->pad[0]; if (!g_fl_head[c]) g_fl_tail[c] = 0;
  --g_fl_len[c]; return o;
}
static void arena_init() {
  size_t s = 64; int c = 0;
  while (c < NCLS) { g_cls_size[c++] = s; if (c < NCLS) g_cls_size[c++] = s + s / 2; s *= 2; }
  void* m = mmap(nullptr, AR_CAP, PROT_READ | PROT_WRITE, MAP_PRIVATE | MAP_ANONYMOUS | MAP_NORESERVE, -1, 0);
  if (m == MAP_FAILED) return;
  g_ar_base = (char*)m; g_ar_enabled = true;
  if (__asan_poison_memory_region) __asan_poison_memory_region(g_ar_base, 1 << 20);
}
static void arena_reset(uint64_t env) {
  if (!g_ar_enabled) return;
  uint64_t s = env * 0xD1342543DE82EF95ull + 99;
  auto nx = [&]() { s ^= s << 13; s ^= s >> 7; s ^= s << 17; return s; };
  // Blocks that were still live when a fault-free execution ended may be referenced from static or thread-local
  // storage (a cache inside the library or libstdc++): everything below g_ar_floor is kept for good. Blocks leaked by
  // an execution that injected a fault are unreferenced garbage and are recycled.
  bool rewind = (g_ar_live - g_ar_preserved) == 0 || g_ar_force_rewind;
  if (rewind) {
    if (__asan_poison_memory_region && g_ar_hw > g_ar_floor) __asan_poison_memory_region(g_ar_base + g_ar_floor, g_ar_hw - g_ar_floor);
    g_ar_bump = g_ar_floor; g_ar_hw = g_ar_floor; g_ar_live = g_ar_preserved;
  }
  g_ar_force_rewind = false;
  for (int c = 0; c < NCLS; ++c) g_fl_head[c] = g_fl_tail[c] = g_fl_len[c] = g_fl_pre[c] = 0;
  g_ar_bump = (g_ar_bump + 4095) & ~(size_t)4095;
  g_ar_bump += 4096 + (size_t)(nx() % 256) * 64;           // start offset
  g_ar_start = g_ar_bump;
  g_ar_lifo = nx() & 1; g_ar_quarantine = (uint32_t)(nx() % 48);
  // pre-carve a few slots per small class and queue them in shuffled order: early allocations of one size come
  // in a seeded address order (pointer-order dependence then differs between twin executions)
  for (int c = 0; c < 12; ++c) {
    uint32_t k = (uint32_t)(nx() % 20); uint32_t offs[20];
    for (uint32_t i = 0; i < k; ++i) { offs[i] = (uint32_t)(g_ar_bump / 16); g_ar_bump += g_cls_size[c]; }
    for (uint32_t i = k; i > 1; --i) { uint32_t j = (uint32_t)(nx() % i); uint32_t t = offs[i - 1]; offs[i - 1] = offs[j]; offs[j] = t; }
    for (uint32_t i = 0; i < k; ++i) { Hdr* h = ar_hdr(offs[i]); if (__asan_unpoison_memory_region) __asan_unpoison_memory_region(h, sizeof(Hdr)); h->magic = 0; fl_push(c, offs[i], false); if (__asan_poison_memory_region) __asan_poison_memory_region(h, sizeof(Hdr)); }
    g_fl_pre[c] = k;
  }
  if (g_ar_bump > g_ar_hw) g_ar_hw = g_ar_bump;
}
// returns user pointer or nullptr (caller falls back to malloc)
static void* arena_alloc(size_t n, int kind) {
  if (!g_ar_enabled) return nullptr;
  int c = cls_of(n + sizeof(Hdr) + 16);
  if (c < 0) return nullptr;
  uint32_t o = 0;
  if (g_fl_pre[c] > 0) { o = fl_pop(c); --g_fl_pre[c]; }
  else if (g_fl_len[c] > (g_ar_lifo ? 0u : g_ar_quarantine)) o = fl_pop(c);
  if (!o) {
    if (g_ar_bump + g_cls_size[c] > AR_CAP) return nullptr;
    o = (uint32_t)(g_ar_bump / 16); g_ar_bump += g_cls_size[c];
    if (g_ar_bump > g_ar_hw) g_ar_hw = g_ar_bump;
  }
  Hdr* h = ar_hdr(o);
  if (__asan_unpoison_memory_region) __asan_unpoison_memory_region(h, sizeof(Hdr));
  h->size = n; h->magic = MAGIC; h->kind = (uint8_t)kind; h->inscope = 2; h->off = (uint16_t)sizeof(Hdr); h->pad[0] = 0; h->pad[1] = (uint64_t)c;
  void* user = (char*)h + sizeof(Hdr);
  if (__asan_unpoison_memory_region) __asan_unpoison_memory_region(user, n);
  if (__asan_poison_memory_region) __asan_poison_memory_region(h, sizeof(Hdr));
  ++g_ar_live;
  return user;
}
static void arena_free(Hdr* h, void* user) {
  int c = (int)h->pad[1];
  if (__asan_poison_memory_region) __asan_poison_memory_region(user, h->size);
  uint32_t o = (uint32_t)(((char*)h - g_ar_base) / 16);
  if ((size_t)o * 16 < g_ar_floor) { --g_ar_preserved; --g_ar_live; if (__asan_poison_memory_region) __asan_poison_memory_region(h, sizeof(Hdr)); return; }
  fl_push(c, o, g_ar_lifo);
  if (__asan_poison_memory_region) __asan_poison_memory_region(h, sizeof(Hdr));
  --g_ar_live;
}
void rt_arena_expect_leaks() { g_ar_force_rewind = true; }
void rt_arena_preserve_live() {
  if (!g_ar_enabled || g_ar_live == g_ar_preserved) return;
  g_ar_floor = (g_ar_bump + 4095) & ~(size_t)4095; g_ar_preserved = g_ar_live;
}

int rt_on_valgrind() {
#ifdef RUNNING_ON_VALGRIND
  return RUNNING_ON_VALGRIND ? 1 : 0;
#else
  return 0;
#endif
}
// UBSan's vptr check keeps a process-wide 128-entry type cache; whether a check hits or misses decides which of two sibling
// edges runs. Emptied at the start of every execution, the pattern is a function of the execution alone.
extern "C" __attribute__((weak)) uintptr_t __ubsan_vptr_type_cache[128];
void rt_set_env(uint64_t env) {
  rt_env_release();
  if (__ubsan_vptr_type_cache) memset((void*)__ubsan_vptr_type_cache, 0, 128 * sizeof(uintptr_t));
  g_env = env;
  static const unsigned char fills[8] = {0xA5, 0x5A, 0xFF, 0x01, 0x7F, 0x80, 0xCC, 0x33};
  g_fill = fills[env & 7]; g_free_fill = (unsigned char)~g_fill ^ 0x11;
  uint64_t s = env * 0x9E3779B97F4A7C15ull + 12345;
  auto nx = [&]() { s ^= s << 13; s ^= s >> 7; s ^= s << 17; return s; };
  g_defer_cap = (int)(nx() % (DEFER_MAX + 1)); g_defer_n = 0; g_defer_pos = 0;
  if (__tsan_init) g_defer_cap = 0;   // a block freed by another thread than the one that deferred it would look like a race to TSan
  int n = (int)(nx() % 33);
  g_spacer_n = 0;
  for (int i = 0; i < n; ++i) {
    size_t sz = 16 + (size_t)(nx() % 2048);
    void* p = malloc(sz);
    if (nx() & 1) free(p); else g_spacers[g_spacer_n++] = p;
  }
  arena_reset(env);
}
static void real_free(void* user) {
  Hdr* h = (Hdr*)((char*)user - sizeof(Hdr));
  void* base = (char*)user - h->off;
  hdr_unpoison(base, h->off);
  free(base);
}
void rt_env_release() {
  for (int i = 0; i < g_defer_n; ++i) real_free(g_defer[i]);
  g_defer_n = 0; g_defer_pos = 0;
  for (int i = 0; i < g_spacer_n; ++i) free(g_spacers[i]);
  g_spacer_n = 0;
}
AllocStats& rt_alloc_stats() { return g_as; }
void rt_reset_alloc_stats() { int64_t lb = g_as.live_blocks, ly = g_as.live_bytes; g_as = AllocStats(); g_as.live_blocks = lb; g_as.live_bytes = ly; g_as.peak_bytes = ly; g_as_base_bytes = ly; }

// Blocks allocated before main() by code that lives in libclipsim.so (a table the library builds during static
// initialisation) are global state of the library just like its .data/.bss: the static-storage monitor covers them.
static bool g_main_started = false;
struct PreBlk { const unsigned char* p; size_t n; const void* ra; };
static const int PRE_MAX = 4096;
static PreBlk g_pre[PRE_MAX]; static int g_npre = 0;
static const uint64_t PRE_TAG = 0x5052454D41494E21ull;

static void* sim_alloc(size_t n, bool nothrow, int kind, size_t align, const void* ra) {
  TaskCtx* t = sim_cur();
  bool inscope = t->scope > 0;
  if (inscope) {
    if (!nothrow) {
      int64_t idx = t->op_allocs++; ++t->total_allocs;
      if (t->op == t->fault_op && idx == t->fault_alloc && t->fault_kind == 0 && !t->fault_fired) {
        t->fault_fired = true; t->fault_guard = t->last_guard;
        throw std::bad_alloc();
      }
    } else {
      int64_t idx = t->op_nt_allocs++; ++t->total_nt_allocs;
      if (t->nothrow_fail_all || (t->op == t->fault_op && idx == t->fault_alloc && t->fault_kind == 1 && !t->fault_fired)) {
        if (!t->nothrow_fail_all) { t->fault_fired = true; t->fault_guard = t->last_guard; }
        ++t->nothrow_failed;
        return nullptr;
      }
    }
    if ((int64_t)n > MAX_REQUEST)
      rt_die(80, "kind=alloc-too-large bytes=%zu op=%d guard=%u", n, t->op, t->last_guard);
  }
  if (inscope && align <= 16) {
    void* user = arena_alloc(n, kind);
    if (user) {
      fill_bytes(user, g_fill, n);
      SIM_MEM_UNDEFINED(user, n);        // memcheck engine: fresh memory is uninitialised, whatever the arena held before
      ++g_as.live_blocks; g_as.live_bytes += (int64_t)n;
      if (g_as.live_bytes > g_as.peak_bytes) g_as.peak_bytes = g_as.live_bytes;
      if ((int64_t)n > g_as.max_request) g_as.max_request = (int64_t)n;
      if (g_as.live_bytes - g_as_base_bytes > MAX_LIVE)
        rt_die(80, "kind=memory-unbounded live_bytes=%lld op=%d guard=%u", (long long)g_as.live_bytes, t->op, t->last_guard);
      return user;
    }
  }
  size_t off = sizeof(Hdr);
  void* base;
  if (align > 16) { off = align > sizeof(Hdr) ? align : sizeof(Hdr); base = aligned_alloc(align, ((n + off + align - 1) / align) * align); }
  else base = malloc(n + off);
  if (!base) { if (nothrow) return nullptr; throw std::bad_alloc(); }
  Hdr* h = (Hdr*)((char*)base + off - sizeof(Hdr));
  h->size = n; h->magic = MAGIC; h->kind = (uint8_t)kind; h->inscope = inscope; h->off = (uint16_t)off;
  void* user = (char*)base + off;
  h->pad[1] = 0;
  if (!g_main_started && g_npre < PRE_MAX) { g_pre[g_npre++] = { (const unsigned char*)user, n, ra }; h->pad[1] = PRE_TAG; }
  fill_bytes(user, g_fill, n);
  SIM_MEM_UNDEFINED(user, n);
  hdr_poison(base, off);
  if (inscope) {
    ++g_as.live_blocks; g_as.live_bytes += (int64_t)n;
    if (g_as.live_bytes > g_as.peak_bytes) g_as.peak_bytes = g_as.live_bytes;
    if ((int64_t)n > g_as.max_request) g_as.max_request = (int64_t)n;
    if (g_as.live_bytes - g_as_base_bytes > MAX_LIVE)
      rt_die(80, "kind=memory-unbounded live_bytes=%lld op=%d guard=%u", (long long)g_as.live_bytes, t->op, t->last_guard);
  }
  return user;
}

static void sim_free(void* user, int kind) {
  if (!user) return;
  Hdr* h = (Hdr*)((char*)user - sizeof(Hdr));
  hdr_unpoison(h, sizeof(Hdr));
  if (h->magic != MAGIC) {
    ++g_as.header_corrupt;
    rt_die(81, "kind=bad-free ptr=%p magic=%x (double free, foreign pointer or heap underflow)", user, h->magic);
  }
  if (h->kind != kind) {
    ++g_as.mismatched_delete;
    rt_die(81, "kind=mismatched-delete allocated_with=%s freed_with=%s size=%llu",
           h->kind ? "new[]" : "new", kind ? "delete[]" : "delete", (unsigned long long)h->size);
  }
  if (h->inscope) { --g_as.live_blocks; g_as.live_bytes -= (int64_t)h->size; }
  h->magic = 0xDEADF4EEu;
  fill_bytes(user, g_free_fill, h->size);
  if (h->inscope == 2) { arena_free(h, user); return; }
  if (h->pad[1] == PRE_TAG) { for (int i = 0; i < g_npre; ++i) if (g_pre[i].p == (const unsigned char*)user) { g_pre[i] = g_pre[--g_npre]; break; } h->pad[1] = 0; }
  hdr_poison((char*)user - h->off, h->off);
  if (g_defer_cap > 0) {
    if (g_defer_n < g_defer_cap) { g_defer[g_defer_n++] = user; return; }
    void* old = g_defer[g_defer_pos]; g_defer[g_defer_pos] = user; g_defer_pos = (g_defer_pos + 1) % g_defer_cap;
    user = old;
  }
  real_free(user);
}

} // namespace sim

void* operator new(size_t n) { return sim::sim_alloc(n, false, 0, 0, __builtin_return_address(0)); }
void* operator new[](size_t n) { return sim::sim_alloc(n, false, 1, 0, __builtin_return_address(0)); }
void* operator new(size_t n, const std::nothrow_t&) noexcept { return sim::sim_alloc(n, true, 0, 0, __builtin_return_address(0)); }
void* operator new[](size_t n, const std::nothrow_t&) noexcept { return sim::sim_alloc(n, true, 1, 0, __builtin_return_address(0)); }
void* operator new(size_t n, std::align_val_t a) { return sim::sim_alloc(n, false, 0, (size_t)a, __builtin_return_address(0)); }
void* operator new[](size_t n, std::align_val_t a) { return sim::sim_alloc(n, false, 1, (size_t)a, __builtin_return_address(0)); }
void* operator new(size_t n, std::align_val_t a, const std::nothrow_t&) noexcept { return sim::sim_alloc(n, true, 0, (size_t)a, __builtin_return_address(0)); }
void* operator new[](size_t n, std::align_val_t a, const std::nothrow_t&) noexcept { return sim::sim_alloc(n, true, 1, (size_t)a, __builtin_return_address(0)); }
void operator delete(void* p) noexcept { sim::sim_free(p, 0); }
void operator delete[](void* p) noexcept { sim::sim_free(p, 1); }
void operator delete(void* p, size_t) noexcept { sim::sim_free(p, 0); }
void operator delete[](void* p, size_t) noexcept { sim::sim_free(p, 1); }
void operator delete(void* p, const std::nothrow_t&) noexcept { sim::sim_free(p, 0); }
void operator delete[](void* p, const std::nothrow_t&) noexcept { sim::sim_free(p, 1); }
void operator delete(void* p, std::align_val_t) noexcept { sim::sim_free(p, 0); }
void operator delete[](void* p, std::align_val_t) noexcept { sim::sim_free(p, 1); }
void operator delete(void* p, size_t, std::align_val_t) noexcept { sim::sim_free(p, 0); }
void operator delete[](void* p, size_t, std::align_val_t) noexcept { sim::sim_free(p, 1); }

// ------------------------------------------------------------------ step clock (S2)
namespace sim { static void guard_slow(TaskCtx* t); }

extern "C" void __sanitizer_cov_trace_pc_guard_init(uint32_t* start, uint32_t* stop) {
  if (start == stop || *start) return;
  for (uint32_t* x = start; x < stop; ++x) *x = ++sim::g_nguards;
  sim::g_hits = (unsigned char*)calloc(sim::g_nguards + 2, 1);
}
extern "C" void __sanitizer_cov_pcs_init(const uintptr_t* beg, const uintptr_t* end) {
  if (!sim::g_pcs_beg) { sim::g_pcs_beg = beg; sim::g_pcs_end = end; }
}
static FILE* g_trace_f = nullptr; static int g_trace_on = -1;
extern "C" void __sanitizer_cov_trace_pc_guard(uint32_t* guard) {
  sim::TaskCtx* t = sim::tl_cur; if (!t) t = &sim::g_main_ctx;
  uint32_t g = *guard;
  if (g_trace_on) {           // debugging aid (SIM_EDGE_TRACE=<file>): every edge with the task that executed it
    if (g_trace_on < 0) { const char* f = getenv("SIM_EDGE_TRACE"); g_trace_on = f ? 1 : 0; if (f) g_trace_f = fopen(f, "w"); }
    if (g_trace_f && t->preemptible) fprintf(g_trace_f, "%d %u\n", t->id, g);
  }
  t->last_guard = g;
  sim::g_hits[g] = 1;
  if (sim::g_counts) ++sim::g_counts[g];
  if (++t->steps >= t->step_limit || g == t->watch_guard) sim::guard_slow(t);
}

namespace sim {

uint32_t rt_num_guards() { return g_nguards; }
uint32_t* rt_guard_counts(bool enable) { if (enable && !g_counts) g_counts = (uint32_t*)calloc(g_nguards + 2, 4); return g_counts; }
const unsigned char* rt_guard_hits() { return g_hits; }
void rt_clear_guard_hits() { if (g_hits) memset(g_hits, 0, g_nguards + 2); }
uint64_t rt_total_steps() { return g_steps_retired.load() + g_main_ctx.steps; }

// ------------------------------------------------------------------ static storage monitor (S4)
static uintptr_t g_lib_base = 0, g_text_lo = 0, g_text_hi = 0;
static StaticRegion g_regions[8]; static int g_nregions = -1;
static unsigned char* g_snap = nullptr; static size_t g_snap_n = 0;

static int phdr_cb(struct dl_phdr_info* info, size_t, void*) {
  if (!info->dlpi_name || !strstr(info->dlpi_name, "libclipsim")) return 0;
  g_lib_base = info->dlpi_addr;
  uintptr_t relro_lo = 0, relro_hi = 0;
  for (int i = 0; i < info->dlpi_phnum; ++i)
    if (info->dlpi_phdr[i].p_type == PT_GNU_RELRO) {
      relro_lo = info->dlpi_addr + info->dlpi_phdr[i].p_vaddr;
      relro_hi = relro_lo + info->dlpi_phdr[i].p_memsz;
      // RELRO is page-granular at run time
      relro_hi = (relro_hi + 4095) & ~(uintptr_t)4095;
    }
  g_nregions = 0;
  for (int i = 0; i < info->dlpi_phnum; ++i) {
    const ElfW(Phdr)& ph = info->dlpi_phdr[i];
    if (ph.p_type == PT_LOAD && (ph.p_flags & PF_X)) { g_text_lo = info->dlpi_addr + ph.p_vaddr; g_text_hi = g_text_lo + ph.p_memsz; }
  }
  for (int i = 0; i < info->dlpi_phnum && g_nregions < 7; ++i) {
    const ElfW(Phdr)& ph = info->dlpi_phdr[i];
    if (ph.p_type != PT_LOAD || !(ph.p_flags & PF_W)) continue;
    uintptr_t lo = info->dlpi_addr + ph.p_vaddr, hi = lo + ph.p_memsz;
    if (relro_hi > relro_lo && relro_lo < hi && relro_hi > lo) {
      if (relro_lo > lo) { g_regions[g_nregions++] = { (const unsigned char*)lo, relro_lo - lo }; }
      if (relro_hi < hi) { g_regions[g_nregions++] = { (const unsigned char*)relro_hi, hi - relro_hi }; }
    } else g_regions[g_nregions++] = { (const unsigned char*)lo, hi - lo };
  }
  return 1;
}
int rt_static_regions(StaticRegion* out, int max) {
  if (g_nregions < 0) { g_nregions = 0; dl_iterate_phdr(phdr_cb, nullptr); }
  int n = g_nregions < max ? g_nregions : max;
  for (int i = 0; i < n; ++i) out[i] = g_regions[i];
  return n;
}
uint64_t rt_lib_base() { StaticRegion r[8]; rt_static_regions(r, 8); return g_lib_base; }
size_t rt_static_bytes() { StaticRegion r[8]; int n = rt_static_regions(r, 8); size_t s = 0; for (int i = 0; i < n; ++i) s += r[i].n; return s; }
uint64_t rt_static_digest() {
  StaticRegion r[8]; int n = rt_static_regions(r, 8);
  uint64_t h = 1469598103934665603ull;
  for (int i = 0; i < n; ++i) for (size_t k = 0; k < r[i].n; ++k) { h ^= r[i].p[k]; h *= 1099511628211ull; }
  return h;
}
// all monitored ranges: the writable segments of libclipsim.so, the blocks its code allocated before main(), and the part of
// the arena that holds blocks which outlived every object of an earlier fault-free execution (heap state that only a
// static pointer can still reach: a lazily built table or a cache)
static int monitored(StaticRegion* out, int max) {
  int n = rt_static_regions(out, 8);
  for (int i = 0; i < g_npre && n < max; ++i) {
    uintptr_t ra = (uintptr_t)g_pre[i].ra;
    if (ra >= g_text_lo && ra < g_text_hi && g_pre[i].n > 0) out[n++] = { g_pre[i].p, g_pre[i].n };
  }
  if (g_ar_enabled && g_ar_floor > 0 && n < max) out[n++] = { (const unsigned char*)g_ar_base, g_ar_floor };
  return n;
}
static const int MON_MAX = 8 + 512;
static int g_snap_nreg = 0; static StaticRegion g_snap_reg[MON_MAX];
size_t rt_static_bytes_all() { StaticRegion r[MON_MAX]; int n = monitored(r, MON_MAX); size_t s = 0; for (int i = 0; i < n; ++i) s += r[i].n; return s; }
void rt_static_snapshot() {
  g_snap_nreg = monitored(g_snap_reg, MON_MAX);
  size_t tot = 0; for (int i = 0; i < g_snap_nreg; ++i) tot += g_snap_reg[i].n;
  if (tot != g_snap_n) { free(g_snap); g_snap = (unsigned char*)malloc(tot ? tot : 1); g_snap_n = tot; }
  size_t o = 0; for (int i = 0; i < g_snap_nreg; ++i) { memcpy(g_snap + o, g_snap_reg[i].p, g_snap_reg[i].n); o += g_snap_reg[i].n; }
}
// offset of the first changed byte: relative to libclipsim.so for static storage, 2^40 + k for a block allocated before
// main() (k = index), 2^41 + offset for the preserved part of the arena; -1 if nothing changed
int64_t rt_static_diff() {
  size_t o = 0; int nstat = g_nregions > 0 ? g_nregions : 0;
  for (int i = 0; i < g_snap_nreg; ++i) {
    const StaticRegion& r = g_snap_reg[i];
    if (memcmp(g_snap + o, r.p, r.n) != 0)
      for (size_t k = 0; k < r.n; ++k) if (g_snap[o + k] != r.p[k]) {
        if (i < nstat) return (int64_t)((uintptr_t)(r.p + k) - g_lib_base);
        if (g_ar_enabled && r.p == (const unsigned char*)g_ar_base) return ((int64_t)1 << 41) + (int64_t)k;
        return ((int64_t)1 << 40) + (int64_t)(i - nstat);
      }
    o += r.n;
  }
  return -1;
}
uint64_t rt_guard_pc(uint32_t guard) {
  if (!g_pcs_beg || guard == 0) return 0;
  size_t idx = (size_t)(guard - 1) * 2;
  if (g_pcs_beg + idx >= g_pcs_end) return 0;
  return (uint64_t)(g_pcs_beg[idx] - rt_lib_base());
}

// ------------------------------------------------------------------ scheduler
static inline void futex_wait(std::atomic<int>* a, int val) { syscall(SYS_futex, (int*)a, FUTEX_WAIT_PRIVATE, val, nullptr, nullptr, 0); }
static inline void futex_wake(std::atomic<int>* a) { syscall(SYS_futex, (int*)a, FUTEX_WAKE_PRIVATE, 1, nullptr, nullptr, 0); }
static inline void park(std::atomic<int>* a) { while (a->load(std::memory_order_acquire) == 0) futex_wait(a, 0); a->store(0, std::memory_order_relaxed); }
static inline void unpark(std::atomic<int>* a) { a->store(1, std::memory_order_release); futex_wake(a); }

struct Task {
  pthread_t th; std::atomic<int> go{0}; TaskCtx ctx; std::atomic<int> done{0}; int why = 0;
  TaskFn fn; void* arg;
};
static Task* g_tasks = nullptr; static int g_ntasks = 0;
static std::atomic<int> g_sched_go{0};

static void task_yield(Task* tk, int why) {
  tk->why = why; ++tk->ctx.yields;
  unpark(&g_sched_go);
  park(&tk->go);
}

static void guard_slow(TaskCtx* t) {
  if (t->steps >= t->budget)
    rt_die(79, "kind=hang steps=%llu op=%d guard=%u task=%d", (unsigned long long)t->steps, t->op, t->last_guard, t->id);
  if (!t->preemptible) { t->step_limit = t->budget; return; }
  bool watched = t->watch_guard && t->last_guard == t->watch_guard && t->steps < t->step_limit;
  if (t->guard_depth > 0) { if (!watched) t->step_limit = t->steps + 1; return; } // holding a static-init guard: finish it first
  Task* tk = &g_tasks[t->id];
  t->watch_guard = 0;
  task_yield(tk, watched ? 3 : 0);
}

extern "C" void sim_yield_point(int kind) {
  TaskCtx* t = sim_cur();
  (void)kind;
  if (!t->preemptible || t->guard_depth > 0) return;
  if (t->until_event) task_yield(&g_tasks[t->id], 1); // "run until next event" quantum
}

static void* task_main(void* p) {
  Task* tk = (Task*)p;
  tl_cur = &tk->ctx;
  park(&tk->go);
  tk->fn(tk->arg, tk->ctx.id);
  tk->ctx.preemptible = false;
  g_steps_retired.fetch_add(tk->ctx.steps);
  tk->why = 2;
  tk->done.store(1, std::memory_order_release);
  unpark(&g_sched_go);
  return nullptr;
}

void rt_run_tasks(int ntasks, TaskFn fn, void* arg, ChooseFn choose, void* cctx, uint64_t budget,
                  SchedSeg* log, size_t log_cap, size_t* log_n, SchedResult* res, TaskCtx** out_ctxs,
                  void (*prepare)(void*, int, TaskCtx*), void* pctx) {
  Task* tasks = new Task[ntasks];
  g_tasks = tasks; g_ntasks = ntasks; g_sched_go.store(0);
  pthread_attr_t at; pthread_attr_init(&at); pthread_attr_setstacksize(&at, 8u << 20);
  for (int i = 0; i < ntasks; ++i) {
    tasks[i].fn = fn; tasks[i].arg = arg; tasks[i].ctx = TaskCtx(); tasks[i].ctx.id = i;
    tasks[i].ctx.preemptible = true; tasks[i].ctx.budget = budget; tasks[i].ctx.step_limit = 0;
    if (prepare) prepare(pctx, i, &tasks[i].ctx);
    if (out_ctxs) out_ctxs[i] = &tasks[i].ctx;
    if (pthread_create(&tasks[i].th, &at, task_main, &tasks[i]) != 0) rt_die(2, "pthread_create failed");
  }
  pthread_attr_destroy(&at);
  uint64_t alive = ntasks >= 64 ? ~0ull : ((1ull << ntasks) - 1);
  int last = -1; uint32_t last_guard = 0; size_t n = 0;
  uint64_t lib_pre_mask = 0;
  while (alive) {
    int task = -1; uint64_t q = 0;
    choose(cctx, alive, last, last_guard, &task, &q);
    if (task < 0 || task >= ntasks || !(alive >> task & 1)) { // fall back to lowest alive task
      for (task = 0; !(alive >> task & 1); ++task) {}
    }
    Task* tk = &tasks[task];
    uint64_t before = tk->ctx.steps;
    if (q == 0) q = 1;
    tk->ctx.until_event = q >= (~0ull >> 2);                       // run until next event / finish
    // (bounded: a task spinning on something a parked task must provide is preempted after 2e6 edges at the latest)
    tk->ctx.step_limit = tk->ctx.until_event ? before + 2000000 : before + q;
    if (tk->ctx.step_limit > tk->ctx.budget) tk->ctx.step_limit = tk->ctx.budget;
    unpark(&tk->go);
    park(&g_sched_go);
    uint64_t ran = tk->ctx.steps - before;
    if (n < log_cap && log) log[n] = SchedSeg{task, q, ran, tk->ctx.last_guard, tk->why};
    ++n;
    if (res) { ++res->switches; if (tk->why == 0 && tk->ctx.scope > 0) { ++res->lib_preemptions; lib_pre_mask |= 1ull << task; } }
    last = task; last_guard = tk->ctx.last_guard;
    if (tk->done.load(std::memory_order_acquire)) { alive &= ~(1ull << task); pthread_join(tk->th, nullptr); }
  }
  { int task = -1; uint64_t q = 0; choose(cctx, 0, last, last_guard, &task, &q); }   // final monitoring turn (no task left)
  if (res) { res->tasks_preempted_in_lib = __builtin_popcountll(lib_pre_mask); for (int i = 0; i < ntasks; ++i) if (tasks[i].ctx.runtime_state_call && !res->runtime_state_call) res->runtime_state_call = tasks[i].ctx.runtime_state_call; }
  if (log_n) *log_n = n < log_cap ? n : log_cap;
  g_tasks = nullptr; g_ntasks = 0;
  delete[] tasks;
}

void rt_init(const char* status_path) {
  g_main_started = true;
  tl_cur = &g_main_ctx;
  if (!__tsan_init && !getenv("SIM_NO_ARENA")) arena_init();
  if (status_path && *status_path) {
    int fd = open(status_path, O_RDWR | O_CREAT, 0644);
    if (fd >= 0) {
      if (ftruncate(fd, 64) == 0) {
        void* m = mmap(nullptr, 64, PROT_READ | PROT_WRITE, MAP_SHARED, fd, 0);
        if (m != MAP_FAILED) g_status = (uint64_t*)m;
      }
      close(fd);
    }
  }
}

} // namespace sim

// ---- function-local-static guards: a task holding one is not preempted (deadlock avoidance).
// libclipsim.so is linked with --wrap for these three symbols; the wrappers live here.
extern "C" int __wrap___cxa_guard_acquire(void* g) {
  sim::TaskCtx* t = sim::sim_cur();
  ++t->guard_depth;
  int r = __cxa_guard_acquire(g);
  if (!r) --t->guard_depth; else ++t->guard_brackets;
  return r;
}
extern "C" void __wrap___cxa_guard_release(void* g) { __cxa_guard_release(g); sim::TaskCtx* t = sim::sim_cur(); if (t->guard_depth > 0) --t->guard_depth; }
// std::call_once / pthread_once: one-time initialisation under a proper guard, same treatment as a magic static
extern "C" int __wrap_pthread_once(pthread_once_t* once, void (*fn)(void)) {
  sim::TaskCtx* t = sim::sim_cur();
  ++t->guard_depth; ++t->guard_brackets;
  int r = pthread_once(once, fn);
  if (t->guard_depth > 0) --t->guard_depth;
  return r;
}
// Blocking primitives: under the simulator only one task runs at a time, so a task must never block in the kernel on
// something another (parked) task holds. Locks become try-lock loops that hand the processor back; sched_yield is a
// yield point. (TSan still sees the real lock operations and their happens-before edges.)
#include <sched.h>
#include <cerrno>
namespace sim { static void yield_if_task() { TaskCtx* t = sim_cur(); if (t->preemptible && g_tasks) task_yield(&g_tasks[t->id], 1); else sched_yield(); } }
extern "C" int __wrap_pthread_mutex_lock(pthread_mutex_t* m) {
  sim::TaskCtx* t = sim::sim_cur(); ++t->guard_brackets;
  for (;;) { int r = pthread_mutex_trylock(m); if (r != EBUSY) return r; sim::yield_if_task(); }
}
extern "C" int __wrap_pthread_rwlock_rdlock(pthread_rwlock_t* l) {
  for (;;) { int r = pthread_rwlock_tryrdlock(l); if (r != EBUSY && r != EAGAIN) return r; sim::yield_if_task(); }
}
extern "C" int __wrap_pthread_rwlock_wrlock(pthread_rwlock_t* l) {
  sim::TaskCtx* t = sim::sim_cur(); ++t->guard_brackets;
  for (;;) { int r = pthread_rwlock_trywrlock(l); if (r != EBUSY) return r; sim::yield_if_task(); }
}
extern "C" int __wrap_sched_yield() { sim::yield_if_task(); return 0; }
extern "C" void __wrap___cxa_guard_abort(void* g) { __cxa_guard_abort(g); sim::TaskCtx* t = sim::sim_cur(); if (t->guard_depth > 0) --t->guard_depth; }

// sanitizer defaults: classify hits by exit code; leaks are decided exactly by the allocator seam
extern "C" __attribute__((used)) const char* __asan_default_options() {
  return "exitcode=77:detect_leaks=0:allocator_may_return_null=1:detect_stack_use_after_return=0:handle_abort=1:abort_on_error=0:quarantine_size_mb=8";
}
extern "C" __attribute__((used)) const char* __ubsan_default_options() { return "print_stacktrace=1:halt_on_error=1:exitcode=78"; }
extern "C" __attribute__((used)) const char* __tsan_default_options() { return "halt_on_error=1:exitcode=66:report_signal_unsafe=0:history_size=7"; }

// ---- process-global state of the C/C++ runtime (libclipsim.so is linked with --wrap for these): library code that
// calls one of them keeps mutable state outside the caller's objects. The call is forwarded and recorded.
#include <clocale>
#include <exception>
#define SIM_NOTE(name) do { sim::TaskCtx* t_ = sim::sim_cur(); if (t_->scope > 0 && !t_->runtime_state_call) t_->runtime_state_call = name; } while (0)
extern "C" {
int __wrap_rand() { SIM_NOTE("rand"); return rand(); }
void __wrap_srand(unsigned s) { SIM_NOTE("srand"); srand(s); }
long __wrap_random() { SIM_NOTE("random"); return random(); }
void __wrap_srandom(unsigned s) { SIM_NOTE("srandom"); srandom(s); }
double __wrap_drand48() { SIM_NOTE("drand48"); return drand48(); }
long __wrap_lrand48() { SIM_NOTE("lrand48"); return lrand48(); }
long __wrap_mrand48() { SIM_NOTE("mrand48"); return mrand48(); }
void __wrap_srand48(long s) { SIM_NOTE("srand48"); srand48(s); }
char* __wrap_strtok(char* s, const char* d) { SIM_NOTE("strtok"); return strtok(s, d); }
char* __wrap_setlocale(int c, const char* l) { SIM_NOTE("setlocale"); return setlocale(c, l); }
int __wrap_putenv(char* s) { SIM_NOTE("putenv"); return putenv(s); }
int __wrap_setenv(const char* n, const char* v, int o) { SIM_NOTE("setenv"); return setenv(n, v, o); }
int __wrap_unsetenv(const char* n) { SIM_NOTE("unsetenv"); return unsetenv(n); }
std::new_handler __wrap__ZSt15set_new_handlerPFvvE(std::new_handler h) { SIM_NOTE("std::set_new_handler"); return std::set_new_handler(h); }
std::terminate_handler __wrap__ZSt13set_terminatePFvvE(std::terminate_handler h) { SIM_NOTE("std::set_terminate"); return std::set_terminate(h); }
}
