// C export layer workload (clipper.export.h): instrumented, part of libclipsim.so.
// Inputs are exactly sized malloc'd arrays produced by an independent encoder, so an over-read by one
// element is an ASan error; outputs are released through DisposeArray64/D.
#include "work_int.h"
#include "clipper2/clipper.export.h"

namespace sim {
namespace {

#ifdef USINGZ
const int DIM = 3;
#else
const int DIM = 2;
#endif

struct CBuf { void* p = nullptr; ~CBuf() { free(p); } };

int64_t* c_paths64(const PPaths& pp, CBuf& buf, bool null_if_empty) {
  if (null_if_empty && pp.empty()) return nullptr;
  size_t n = 2; for (const PPath& p : pp) n += 2 + p.size() * DIM;
  int64_t* v = (int64_t*)malloc(n * sizeof(int64_t)); buf.p = v; int64_t* w = v;
  *w++ = (int64_t)n; *w++ = (int64_t)pp.size();
  for (const PPath& p : pp) { *w++ = (int64_t)p.size(); *w++ = 0; for (const PPt& q : p) { *w++ = q.x; *w++ = q.y; if (DIM == 3) *w++ = q.z; } }
  return v;
}
double* c_pathsD(const PPathsD& pp, CBuf& buf, bool null_if_empty) {
  if (null_if_empty && pp.empty()) return nullptr;
  size_t n = 2; for (const PPathD& p : pp) n += 2 + p.size() * DIM;
  double* v = (double*)malloc(n * sizeof(double)); buf.p = v; double* w = v;
  *w++ = (double)n; *w++ = (double)pp.size();
  for (const PPathD& p : pp) { *w++ = (double)p.size(); *w++ = 0; for (const PPtD& q : p) { *w++ = q.x; *w++ = q.y; if (DIM == 3) { double z; memcpy(&z, &q.z, 8); *w++ = z; } } }
  return v;
}
int64_t* c_path64(const PPath& p, CBuf& buf) {
  size_t n = 2 + p.size() * DIM; int64_t* v = (int64_t*)malloc(n * sizeof(int64_t)); buf.p = v; int64_t* w = v;
  *w++ = (int64_t)p.size(); *w++ = 0; for (const PPt& q : p) { *w++ = q.x; *w++ = q.y; if (DIM == 3) *w++ = q.z; }
  return v;
}
double* c_pathD(const PPathD& p, CBuf& buf) {
  size_t n = 2 + p.size() * DIM; double* v = (double*)malloc(n * sizeof(double)); buf.p = v; double* w = v;
  *w++ = (double)p.size(); *w++ = 0; for (const PPtD& q : p) { *w++ = q.x; *w++ = q.y; if (DIM == 3) { double z; memcpy(&z, &q.z, 8); *w++ = z; } }
  return v;
}
struct CArr64 { int64_t* p = nullptr; int op; explicit CArr64(int o) : op(o) {} ~CArr64() { if (p) { Scope sc(op); DisposeArray64(p); } } };
struct CArrD { double* p = nullptr; int op; explicit CArrD(int o) : op(o) {} ~CArrD() { if (p) { Scope sc(op); DisposeArrayD(p); } } };
void hash_carr(H& h, const int64_t* p) { if (!p) { h.u(0xdead); return; } int64_t n = p[0]; if (n < 2 || n > (1 << 26)) { h.u(0xbad); h.i(n); return; } for (int64_t k = 0; k < n; ++k) h.i(p[k]); }
void hash_carr(H& h, const double* p) { if (!p) { h.u(0xdead); return; } double n = p[0]; if (!(n >= 2) || n > (1 << 26)) { h.u(0xbad); h.d(n); return; } for (int64_t k = 0; k < (int64_t)n; ++k) h.d(p[k]); }
inline uint8_t et8(int64_t v) { return (uint8_t)(((v % 5) + 5) % 5); }

} // namespace

void hx_x_bool64(const Op& op, int idx, OpResult& r) {
  CBuf b0, b1, b2; int64_t nm = ai(op, 5);
  int64_t* s = c_paths64(op.P[0], b0, nm & 1); int64_t* so = c_paths64(op.P[1], b1, nm & 2); int64_t* cl = c_paths64(op.P[2], b2, nm & 4);
  CArr64 sol(idx), solo(idx); int rc;
  {
    Scope sc(idx);
    if (ai(op, 4)) rc = BooleanOp_PolyTree64((uint8_t)ai(op, 0), (uint8_t)ai(op, 1), s, so, cl, sol.p, solo.p, ai(op, 2) != 0, ai(op, 3) != 0);
    else rc = BooleanOp64((uint8_t)ai(op, 0), (uint8_t)ai(op, 1), s, so, cl, sol.p, solo.p, ai(op, 2) != 0, ai(op, 3) != 0);
  }
  H h; h.i(rc); hash_carr(h, sol.p); hash_carr(h, solo.p); r.digest = h.h;
}
void hx_x_boolD(const Op& op, int idx, OpResult& r) {
  CBuf b0, b1, b2; int64_t nm = ai(op, 6);
  double* s = c_pathsD(op.D[0], b0, nm & 1); double* so = c_pathsD(op.D[1], b1, nm & 2); double* cl = c_pathsD(op.D[2], b2, nm & 4);
  CArrD sol(idx), solo(idx); int rc;
  {
    Scope sc(idx);
    if (ai(op, 5)) rc = BooleanOp_PolyTreeD((uint8_t)ai(op, 0), (uint8_t)ai(op, 1), s, so, cl, sol.p, solo.p, (int)ai(op, 2), ai(op, 3) != 0, ai(op, 4) != 0);
    else rc = BooleanOpD((uint8_t)ai(op, 0), (uint8_t)ai(op, 1), s, so, cl, sol.p, solo.p, (int)ai(op, 2), ai(op, 3) != 0, ai(op, 4) != 0);
  }
  H h; h.i(rc); hash_carr(h, sol.p); hash_carr(h, solo.p); r.digest = h.h;
}
void hx_x_inflate64(const Op& op, int idx, OpResult& r) {
  CBuf b0; CArr64 sol(idx); bool single = ai(op, 3) != 0;
  int64_t* s = single ? c_path64(op.P[0].empty() ? PPath() : op.P[0][0], b0) : c_paths64(op.P[0], b0, ai(op, 4) != 0);
  {
    Scope sc(idx);
    if (single) sol.p = InflatePath64(s, ad(op, 0, 1), (uint8_t)(ai(op, 0) & 3), et8(ai(op, 1)), ad(op, 1, 2.0), ad(op, 2, 0.0), ai(op, 2) != 0);
    else sol.p = InflatePaths64(s, ad(op, 0, 1), (uint8_t)(ai(op, 0) & 3), et8(ai(op, 1)), ad(op, 1, 2.0), ad(op, 2, 0.0), ai(op, 2) != 0);
  }
  H h; hash_carr(h, sol.p); r.digest = h.h;
}
void hx_x_inflateD(const Op& op, int idx, OpResult& r) {
  CBuf b0; CArrD sol(idx); bool single = ai(op, 3) != 0;
  double* s = single ? c_pathD(op.D[0].empty() ? PPathD() : op.D[0][0], b0) : c_pathsD(op.D[0], b0, ai(op, 4) != 0);
  {
    Scope sc(idx);
    if (single) sol.p = InflatePathD(s, ad(op, 0, 1), (uint8_t)(ai(op, 0) & 3), et8(ai(op, 1)), (int)ai(op, 5, 2), ad(op, 1, 2.0), ad(op, 2, 0.0), ai(op, 2) != 0);
    else sol.p = InflatePathsD(s, ad(op, 0, 1), (uint8_t)(ai(op, 0) & 3), et8(ai(op, 1)), (int)ai(op, 5, 2), ad(op, 1, 2.0), ad(op, 2, 0.0), ai(op, 2) != 0);
  }
  H h; hash_carr(h, sol.p); r.digest = h.h;
}
void hx_x_rect64(const Op& op, int idx, OpResult& r) {
  CBuf b0; CArr64 sol(idx); CRect64 rc{ai(op, 0), ai(op, 1), ai(op, 2), ai(op, 3)};
  int64_t* s = c_paths64(op.P[0], b0, ai(op, 5) != 0);
  { Scope sc(idx); sol.p = ai(op, 4) ? Clipper2Lib::RectClipLines64(rc, s) : Clipper2Lib::RectClip64(rc, s); }
  H h; hash_carr(h, sol.p); r.digest = h.h;
}
void hx_x_rectD(const Op& op, int idx, OpResult& r) {
  CBuf b0; CArrD sol(idx); CRectD rc{ad(op, 0), ad(op, 1), ad(op, 2), ad(op, 3)};
  double* s = c_pathsD(op.D[0], b0, ai(op, 2) != 0);
  { Scope sc(idx); sol.p = ai(op, 0) ? RectClipLinesD(rc, s, (int)ai(op, 1, 2)) : RectClipD(rc, s, (int)ai(op, 1, 2)); }
  H h; hash_carr(h, sol.p); r.digest = h.h;
}
void hx_x_mink64(const Op& op, int idx, OpResult& r) {
  CBuf b0, b1; CArr64 sol(idx);
  int64_t* pat = c_path64(op.P[0].size() > 0 ? op.P[0][0] : PPath(), b0); int64_t* path = c_path64(op.P[0].size() > 1 ? op.P[0][1] : PPath(), b1);
  if (ai(op, 2) & 1) pat = nullptr;
  if (ai(op, 2) & 2) path = nullptr;
  { Scope sc(idx); sol.p = ai(op, 0) ? MinkowskiDiff64(pat, path, ai(op, 1) != 0) : MinkowskiSum64(pat, path, ai(op, 1) != 0); }
  H h; hash_carr(h, sol.p); h.str(Version()); r.digest = h.h;
}

} // namespace sim
