// Plan: the explicit, replayable description of one simulated run.
// A seed is only the cheapest way to write a plan down; the simulator executes plans.
// Shared (header-only structs) between the exe (generator, engines, text I/O) and the
// instrumented libclipsim.so (interpreter).
#pragma once
#include <cstdint>
#include <string>
#include <vector>

namespace sim {

struct PPt  { int64_t x = 0, y = 0, z = 0; };
struct PPtD { double  x = 0, y = 0; int64_t z = 0; };
typedef std::vector<PPt>   PPath;
typedef std::vector<PPath> PPaths;
typedef std::vector<PPtD>   PPathD;
typedef std::vector<PPathD> PPathsD;

struct Op {
  std::string kind;          // operation name (see work.cpp op table)
  int kid = -1;              // resolved kind id (filled by the interpreter)
  int task = 0;              // C14: owning task; -1 = set-up on the main thread
  int o = -1, o2 = -1;       // object slots (per task; slots >= 100 are global/shared)
  std::vector<int64_t> i;    // integer arguments
  std::vector<double> d;     // floating arguments
  PPaths  P[3];              // integer path-list arguments
  PPathsD D[3];              // double path-list arguments
  bool hasP[3] = {false,false,false}, hasD[3] = {false,false,false};
};

struct Fault { int op = -1; int64_t alloc = -1; int kind = 0; }; // kind 0: throw bad_alloc, 1: nothrow returns null
struct Seg   { int task = 0; uint64_t quantum = 0; uint32_t watch = 0; }; // schedule segment: run task for quantum edges (or until edge `watch`)

struct Plan {
  std::string prop;          // C10 | C12 | C14
  std::string cfg;           // build configuration the plan was generated for (informational)
  uint64_t env = 1;          // allocator-perturbation key
  uint64_t seed = 0, run = 0;// provenance only
  int ntasks = 1;
  int check_model = 0;       // C12: compare every Execute with the fresh-object reference model
  int variant = 0;           // C10 replay: 0 = as generated, 2 = twin allocator key, 3 = every nothrow request fails
  std::vector<Op> ops;
  std::vector<Fault> faults;
  std::vector<Seg> sched;    // C14: explicit schedule (if empty: derived from sched_seed)
  uint64_t sched_seed = 0;
  std::string expect;        // replay files: expected violation class
  std::string note;
};

// ---- text I/O (plan.cpp, exe side) ----
std::string plan_to_text(const Plan& p);
bool plan_from_text(const std::string& text, Plan& p, std::string& err);

// ---- tiny deterministic PRNG (splitmix64) ----
struct Rng {
  uint64_t s;
  explicit Rng(uint64_t seed = 1) : s(seed) {}
  uint64_t next() { uint64_t z = (s += 0x9E3779B97F4A7C15ull); z = (z ^ (z >> 30)) * 0xBF58476D1CE4E5B9ull; z = (z ^ (z >> 27)) * 0x94D049BB133111EBull; return z ^ (z >> 31); }
  uint64_t below(uint64_t n) { return n ? next() % n : 0; }
  int64_t range(int64_t lo, int64_t hi) { return lo + (int64_t)below((uint64_t)(hi - lo) + 1); } // inclusive
  bool chance(double p) { return (next() >> 11) * (1.0 / 9007199254740992.0) < p; }
  double unit() { return (next() >> 11) * (1.0 / 9007199254740992.0); }
};
inline uint64_t mix64(uint64_t a, uint64_t b) { Rng r(a ^ (b * 0xD6E8FEB86659FD93ull + 0x2545F4914F6CDD1Dull)); r.next(); return r.next(); }
inline uint64_t tag64(const char* s) { uint64_t h = 1469598103934665603ull; while (*s) { h ^= (unsigned char)*s++; h *= 1099511628211ull; } return h; }

} // namespace sim
