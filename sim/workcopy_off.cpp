// Copy construction / assignment of ClipperOffset, in a translation unit of its own: a change to the library may make the
// type non-copyable in a way type traits cannot see (a std::vector<std::unique_ptr<..>> member fails only on instantiation).
// build.py compiles this file normally and, if that fails, again with -DSIM_COPY_STUB: the copy operation is then skipped.
#include "clipper2/clipper.h"
namespace sim {
#ifdef SIM_COPY_STUB
Clipper2Lib::ClipperOffset* sim_clone_off(const Clipper2Lib::ClipperOffset&) { return nullptr; }
bool sim_assign_off(Clipper2Lib::ClipperOffset&, const Clipper2Lib::ClipperOffset&) { return false; }
#else
Clipper2Lib::ClipperOffset* sim_clone_off(const Clipper2Lib::ClipperOffset& s) { return new Clipper2Lib::ClipperOffset(s); }
bool sim_assign_off(Clipper2Lib::ClipperOffset& d, const Clipper2Lib::ClipperOffset& s) { d = s; return true; }
#endif
}
