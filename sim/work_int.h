// Internal helpers shared by the instrumented TUs (work.cpp, workx.cpp).
#pragma once
#include "clipper2/clipper.h"
#include "work.h"
#include "rt.h"
#include <cstring>
#include <string>

namespace sim {
using namespace Clipper2Lib;
namespace {
// ------------------------------------------------------------------ scope bracket
struct Scope {
  explicit Scope(int op) { sim_scope_enter(op); }
  ~Scope() { sim_scope_leave(); }
};

// ------------------------------------------------------------------ hashing / dumping
struct H {
  uint64_t h = 1469598103934665603ull;
  void u(uint64_t v) { h ^= v; h *= 1099511628211ull; h ^= h >> 29; }
  void i(int64_t v) { u((uint64_t)v); }
  void d(double x) { uint64_t b; memcpy(&b, &x, 8); u(b); }
  void pt(const Point64& p) { i(p.x); i(p.y);
#ifdef USINGZ
    i(p.z);
#endif
  }
  void pt(const PointD& p) { d(p.x); d(p.y);
#ifdef USINGZ
    i(p.z);
#endif
  }
  template <typename T> void path(const Path<T>& p) { u(p.size()); for (const auto& q : p) pt(q); }
  template <typename T> void paths(const Paths<T>& pp) { u(0x9a7b5 + pp.size()); for (const auto& p : pp) path(p); }
  void tree(const PolyPath64& t) { u(0x7ee + t.Count()); path(t.Polygon()); for (const auto& c : t) tree(*c); }
  void tree(const PolyPathD& t) { u(0x7ee + t.Count()); path(t.Polygon()); for (const auto& c : t) tree(*c); }
  void str(const std::string& s) { u(s.size()); for (char c : s) u((unsigned char)c); }
};

static inline int64_t ai(const Op& o, size_t k, int64_t def = 0) { return k < o.i.size() ? o.i[k] : def; }
static inline double ad(const Op& o, size_t k, double def = 0) { return k < o.d.size() ? o.d[k] : def; }

} // namespace
// C export layer handlers live in workx.cpp: clipper.export.h declares functions named RectClip64 /
// RectClipLines64 that hide the classes of the same name, so it gets a TU of its own.
void hx_x_bool64(const Op&, int, OpResult&); void hx_x_boolD(const Op&, int, OpResult&);
void hx_x_inflate64(const Op&, int, OpResult&); void hx_x_inflateD(const Op&, int, OpResult&);
void hx_x_rect64(const Op&, int, OpResult&); void hx_x_rectD(const Op&, int, OpResult&);
void hx_x_mink64(const Op&, int, OpResult&);
} // namespace sim
