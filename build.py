#!/usr/bin/env python3
"""Builds the simulator for one configuration from /repo's CURRENT working tree.

Layout of a build:  <build>/<cfg>-<hash>/{libclipsim.so, sim}
  libclipsim.so = the three library sources + the workload interpreter (the only TUs that see the
                  Clipper2 headers), compiled with the sanitizers of the configuration and with
                  -fsanitize-coverage=trace-pc-guard,pc-table (step clock / preemption seam).
  sim           = runtime (allocator, clock, scheduler, static-storage monitor), generators, engines;
                  never compiled with coverage or thread instrumentation.
The hash covers every input (library sources and headers, simulator sources, flags), so a changed tree
is always rebuilt and an unchanged one is reused.
"""
import hashlib, os, subprocess, sys, shutil, concurrent.futures

VERIF = os.path.dirname(os.path.abspath(__file__))
SIM = os.path.join(VERIF, 'sim')
BUILD = os.environ.get('VERIF_BUILD_DIR', os.path.join(VERIF, 'build'))
CXX = 'clang++'

CONFIGS = {
    # name: (sanitize, extra no-sanitize, defines, opt)
    'A':   ('address,undefined', '', [], '-O1'),
    'AZ':  ('address,undefined', '', ['USINGZ'], '-O1'),
    'A62': ('address,undefined', 'signed-integer-overflow', [], '-O1'),
    'AZ62': ('address,undefined', 'signed-integer-overflow', ['USINGZ'], '-O1'),
    'AH':  ('address,undefined', '', ['CLIPPER2_HI_PRECISION=1'], '-O1'),
    'T':   ('thread', '', [], '-O1'),
    'TZ':  ('thread', '', ['USINGZ'], '-O1'),
    'P':   ('', '', [], '-O2'),
    'PZ':  ('', '', ['USINGZ'], '-O2'),
    'PH':  ('', '', ['CLIPPER2_HI_PRECISION=1'], '-O2'),
    # valgrind memcheck engine (C10): plain build with DWARF 4 (valgrind 3.19 cannot read clang's DWARF 5)
    'V':   ('', '', [], '-O1'),
    'VZ':  ('', '', ['USINGZ'], '-O1'),
    # diagnostics only (./check reach): source-based coverage of the library TUs under a property's workload
    'COV':  ('', '', [], '-O1'),
    'COVZ': ('', '', ['USINGZ'], '-O1'),
}

RUNTIME_STATE_SYMS = ['rand', 'srand', 'random', 'srandom', 'drand48', 'lrand48', 'mrand48', 'srand48', 'strtok', 'setlocale', 'putenv', 'setenv', 'unsetenv',
                      '_ZSt15set_new_handlerPFvvE', '_ZSt13set_terminatePFvvE']

LIB_SRCS = ['clipper.engine.cpp', 'clipper.offset.cpp', 'clipper.rectclip.cpp']
WORK_SRCS = ['work.cpp', 'workx.cpp']
# compiled normally, or with -DSIM_COPY_STUB when the library type turned out not to be copyable (the copy operation is then skipped)
OPTIONAL_SRCS = ['workcopy_off.cpp', 'workcopy_rc.cpp']
EXE_SRCS = ['main.cpp', 'gen.cpp', 'plan.cpp', 'rt.cpp']


def repo_dir():
    return os.environ.get('VERIF_REPO_DIR', '/repo')


def lib_root():
    return os.path.join(repo_dir(), 'CPP', 'Clipper2Lib')


def flags_for(cfg):
    san, nosan, defs, opt = CONFIGS[cfg]
    common = ['-std=c++17', opt, '-g', '-fno-omit-frame-pointer'] + (['-gdwarf-4'] if cfg.startswith('V') else [])
    sanflags = []
    if san:
        sanflags.append('-fsanitize=' + san)
        if 'undefined' in san:
            sanflags.append('-fno-sanitize-recover=undefined')
        if nosan:
            sanflags.append('-fno-sanitize=' + nosan)
    lib = common + ['-fPIC'] + sanflags + ['-fsanitize-coverage=trace-pc-guard,pc-table', '-D_GLIBCXX_ASSERTIONS',
                                             '-I' + os.path.join(lib_root(), 'include'), '-I' + SIM]
    if 'address' in san:
        lib.append('-D_GLIBCXX_SANITIZE_VECTOR')
    lib += ['-D' + d for d in defs]
    exe_san = [f for f in sanflags if 'thread' not in f]          # the scheduler stays invisible to TSan
    exe = common + exe_san + ['-I' + SIM, '-D_GLIBCXX_ASSERTIONS']
    if 'address' in san:
        exe.append('-D_GLIBCXX_SANITIZE_VECTOR')    # must agree with the .so: std::vector code is shared across the boundary
    link_so = ['-shared'] + sanflags + ['-Wl,-z,now,-z,relro',
               '-Wl,--wrap=__cxa_guard_acquire,--wrap=__cxa_guard_release,--wrap=__cxa_guard_abort,--wrap=pthread_once,--wrap=pthread_mutex_lock,--wrap=pthread_rwlock_rdlock,--wrap=pthread_rwlock_wrlock,--wrap=sched_yield',
               # process-global state of the C/C++ runtime: any use by library code is reported (C14)
               '-Wl,' + ','.join('--wrap=' + s for s in RUNTIME_STATE_SYMS)]
    link_exe = sanflags + ['-rdynamic', '-lpthread', '-ldl']
    if cfg.startswith('COV'):
        lib += ['-fprofile-instr-generate', '-fcoverage-mapping']
        link_so.append('-fprofile-instr-generate')
        link_exe.append('-fprofile-instr-generate')
    return lib, exe, link_so, link_exe


def tree_hash(cfg):
    h = hashlib.sha1()
    h.update(cfg.encode())
    for part in flags_for(cfg):
        h.update(' '.join(part).replace(repo_dir(), '<repo>').encode())
    files = []
    for sub in ('include/clipper2', 'src'):
        d = os.path.join(lib_root(), sub)
        for fn in sorted(os.listdir(d)):
            files.append(os.path.join(d, fn))
    for fn in sorted(os.listdir(SIM)):
        files.append(os.path.join(SIM, fn))
    files.append(os.path.abspath(__file__))
    for f in files:
        if os.path.isfile(f):
            h.update(os.path.basename(f).encode())
            with open(f, 'rb') as fh:
                h.update(fh.read())
    return h.hexdigest()[:16]


def run(cmd, log):
    p = subprocess.run(cmd, stdout=subprocess.PIPE, stderr=subprocess.STDOUT, text=True)
    log.append(' '.join(cmd) + '\n' + p.stdout)
    return p.returncode == 0


def build(cfg, verbose=False):
    """Returns (dir, None) or (None, error_text)."""
    d = os.path.join(BUILD, '%s-%s' % (cfg, tree_hash(cfg)))
    if os.path.exists(os.path.join(d, 'sim')) and os.path.exists(os.path.join(d, 'libclipsim.so')):
        return d, None
    tmp = d + '.tmp%d' % os.getpid()
    shutil.rmtree(tmp, ignore_errors=True)
    os.makedirs(tmp)
    lib, exe, link_so, link_exe = flags_for(cfg)
    log = []
    jobs = []
    for s in LIB_SRCS:
        jobs.append([CXX] + lib + ['-c', os.path.join(lib_root(), 'src', s), '-o', os.path.join(tmp, s + '.o')])
    for s in WORK_SRCS:
        jobs.append([CXX] + lib + ['-c', os.path.join(SIM, s), '-o', os.path.join(tmp, s + '.o')])
    for s in EXE_SRCS:
        # rt.cpp: no sanitizer at all (it reads its own poisoned block headers) and no builtin memset
        flags = [f for f in exe if not f.startswith('-fsanitize') and not f.startswith('-fno-sanitize')] + ['-fno-builtin'] if s == 'rt.cpp' else exe
        jobs.append([CXX] + flags + ['-c', os.path.join(SIM, s), '-o', os.path.join(tmp, s + '.o')])
    def optional(src):
        cmd = [CXX] + lib + ['-c', os.path.join(SIM, src), '-o', os.path.join(tmp, src + '.o')]
        scratch = []
        if run(cmd, scratch):
            return True
        ok = run(cmd + ['-DSIM_COPY_STUB'], log)
        log.append('note: %s compiled as a stub (type not copyable in this tree)' % src)
        return ok
    with concurrent.futures.ThreadPoolExecutor(max_workers=len(jobs) + len(OPTIONAL_SRCS)) as ex:
        fut = [ex.submit(optional, s_) for s_ in OPTIONAL_SRCS]
        oks = list(ex.map(lambda c: run(c, log), jobs))
        oks += [f.result() for f in fut]
    if not all(oks):
        return None, '\n'.join(log)
    so = os.path.join(tmp, 'libclipsim.so')
    so_linker = ['clang'] if 'thread' in CONFIGS[cfg][0] else [CXX]
    if not run(so_linker + [os.path.join(tmp, s + '.o') for s in LIB_SRCS + WORK_SRCS + OPTIONAL_SRCS] + link_so + (['-lstdc++', '-lm'] if 'thread' in CONFIGS[cfg][0] else []) + ['-o', so], log):
        return None, '\n'.join(log)
    # TSan: libclang_rt.tsan_cxx (whole-archive) defines operator new/delete and would collide with the allocator
    # seam; linking through the C driver leaves it out (malloc/free interception is all that is needed).
    linker = ['clang'] if 'thread' in CONFIGS[cfg][0] else [CXX]
    cxxlibs = ['-lstdc++', '-lm'] if 'thread' in CONFIGS[cfg][0] else []
    if not run(linker + [os.path.join(tmp, s + '.o') for s in EXE_SRCS] + ['-L' + tmp, '-lclipsim', '-Wl,-rpath,$ORIGIN'] + link_exe + cxxlibs +
               ['-o', os.path.join(tmp, 'sim')], log):
        return None, '\n'.join(log)
    for s in LIB_SRCS + WORK_SRCS + OPTIONAL_SRCS + EXE_SRCS:
        try:
            os.remove(os.path.join(tmp, s + '.o'))
        except OSError:
            pass
    with open(os.path.join(tmp, 'build.log'), 'w') as f:
        f.write('\n'.join(log))
    try:
        os.rename(tmp, d)
    except OSError:
        shutil.rmtree(tmp, ignore_errors=True)          # another process won the race
    prune(cfg, keep=d)
    return d, None


def prune(cfg, keep):
    """Disk is limited: keep only the newest two builds per configuration."""
    try:
        ds = [os.path.join(BUILD, x) for x in os.listdir(BUILD) if x.startswith(cfg + '-') and '.tmp' not in x]
    except OSError:
        return
    now = __import__('time').time()
    for x in os.listdir(BUILD):                      # abandoned temporary build dirs (killed builds)
        p = os.path.join(BUILD, x)
        if '.tmp' in x and now - os.path.getmtime(p) > 1800:
            shutil.rmtree(p, ignore_errors=True)
    ds = [x for x in ds if x != keep]
    ds.sort(key=lambda x: os.path.getmtime(x), reverse=True)
    for x in ds[1:]:
        shutil.rmtree(x, ignore_errors=True)


def build_many(cfgs):
    out = {}
    with concurrent.futures.ThreadPoolExecutor(max_workers=4) as ex:
        for cfg, (d, err) in zip(cfgs, ex.map(build, cfgs)):
            out[cfg] = (d, err)
    return out


if __name__ == '__main__':
    cfgs = sys.argv[1:] or ['A']
    res = build_many(cfgs)
    rc = 0
    for c, (d, err) in res.items():
        if err:
            print('BUILD FAILED', c)
            print(err[-6000:])
            rc = 2
        else:
            print(c, d)
    sys.exit(rc)
